#!/venv/bin/python
"""check.py <ID> --tier quick|thorough [--replay file]   (DESIGN.md §5)"""
import os
import sys

sys.path.insert(0, os.path.dirname(os.path.abspath(__file__)))
from sim.driver import main  # noqa: E402

if __name__ == "__main__":
    sys.exit(main())
