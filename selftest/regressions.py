#!/venv/bin/python
"""Replays every file under /verif/regressions (minimised traces of defects
that were found by the checks and then repaired in /repo with `fix:` commits).
On the repaired tree none of them may reproduce.   usage: selftest/regressions.py
"""
import json
import os
import subprocess
import sys

HERE = os.path.dirname(os.path.dirname(os.path.abspath(__file__)))


def main():
    d = os.path.join(HERE, "regressions")
    bad = 0
    for f in sorted(os.listdir(d)):
        if not f.endswith(".json"):
            continue
        prop = json.load(open(os.path.join(d, f)))["property"]
        env = dict(os.environ)
        env.pop("_VERIF_REEXEC", None)
        p = subprocess.run([sys.executable, os.path.join(HERE, "check.py"), prop, "--replay", os.path.join(d, f)],
                           env=env, capture_output=True, text=True)
        ok = p.returncode == 0
        bad += 0 if ok else 1
        print(f"{'ok      ' if ok else 'RETURNED'} {f}")
        if not ok:
            print(p.stdout[-600:])
    return 1 if bad else 0


if __name__ == "__main__":
    sys.exit(main())
