#!/venv/bin/python
"""Sensitivity drills: run the quick checks against seeded property-breaking
changes (DESIGN §3.8).

usage: selftest/mutants.py [ids...] [--tier quick] [--jobs 4] [--props C02,C04]

For every /verif/seeded/<id>/ (patch.diff + meta.json {"property": ...,
"also_check": [...]}) a scratch git worktree of /repo HEAD is created under
$TMPDIR, the patch is applied THERE (never in /repo), the property's check is
run with VERIF_REPO=<scratch> and VERIF_OUT=<scratch>/_verif_out (so the real
evidence files are untouched), and the worktree is removed again.  Prints one
line per (mutant, property): CAUGHT (exit 1 + VIOLATION line) / MISSED (exit 0)
/ HARNESS-ERROR (exit 2), and writes seeded/RESULTS.json.
"""
import json
import os
import shutil
import subprocess
import sys
import tempfile
from concurrent.futures import ThreadPoolExecutor

HERE = os.path.dirname(os.path.dirname(os.path.abspath(__file__)))
REPO = os.environ.get("VERIF_REPO_BASE", "/repo")


BASE = ["seeded"]


def run_one(mid, tier, only_props, workers):
    d = os.path.join(HERE, BASE[0], mid)
    meta = json.load(open(os.path.join(d, "meta.json")))
    props = [meta["property"]] + list(meta.get("also_check", []))
    if only_props:
        props = [p for p in props if p in only_props] or props[:1]
    wt = tempfile.mkdtemp(prefix=f"mw_{mid}_", dir=os.environ.get("TMPDIR", "/tmp"))
    os.rmdir(wt)
    out = []
    try:
        subprocess.run(["git", "-C", REPO, "worktree", "add", "-q", "--detach", wt, "HEAD"], check=True)
        r = subprocess.run(["git", "-C", wt, "apply", os.path.join(d, "patch.diff")], capture_output=True, text=True)
        if r.returncode != 0:
            return [(mid, "-", "PATCH-DOES-NOT-APPLY", r.stderr.strip()[:200], 0.0)]
        for prop in props:
            env = dict(os.environ)
            env["VERIF_REPO"] = wt
            env["VERIF_OUT"] = os.path.join(wt, "_verif_out")
            env["VERIF_WORKERS"] = str(workers)
            env["VERIF_NO_SELFTEST"] = "1"
            env.pop("_VERIF_REEXEC", None)
            import time

            t0 = time.time()
            p = subprocess.run([sys.executable, os.path.join(HERE, "check.py"), prop, "--tier", tier], env=env,
                               capture_output=True, text=True)
            dt = time.time() - t0
            lines = [l for l in p.stdout.splitlines() if l.startswith("VIOLATION") or l.startswith("  oracle=") or l.startswith("HARNESS-ERROR")]
            verdict = {0: "MISSED", 1: "CAUGHT", 2: "HARNESS-ERROR"}.get(p.returncode, f"EXIT-{p.returncode}")
            detail = " | ".join(x.strip() for x in lines[:3])
            if p.returncode == 2:
                detail = (p.stdout[-600:] + p.stderr[-300:]).replace("\n", " / ")
            out.append((mid, prop, verdict, detail[:400], dt))
    finally:
        subprocess.run(["git", "-C", REPO, "worktree", "remove", "--force", wt], capture_output=True)
        shutil.rmtree(wt, ignore_errors=True)
    return out


def main():
    args = [a for a in sys.argv[1:]]
    tier = "quick"
    jobs = 4
    only_props = None
    ids = []
    i = 0
    while i < len(args):
        if args[i] == "--tier":
            tier = args[i + 1]
            i += 2
        elif args[i] == "--jobs":
            jobs = int(args[i + 1])
            i += 2
        elif args[i] == "--dir":
            BASE[0] = args[i + 1]
            i += 2
        elif args[i] == "--props":
            only_props = args[i + 1].split(",")
            i += 2
        else:
            ids.append(args[i])
            i += 1
    if not ids:
        ids = sorted(x for x in os.listdir(os.path.join(HERE, BASE[0])) if os.path.isfile(os.path.join(HERE, BASE[0], x, "meta.json")))
    workers = max(2, 16 // jobs)
    rows = []
    with ThreadPoolExecutor(jobs) as ex:
        for res in ex.map(lambda m: run_one(m, tier, only_props, workers), ids):
            for row in res:
                rows.append(row)
                print(f"{row[0]:28s} {row[1]:4s} {row[2]:14s} {row[4]:6.1f}s  {row[3][:220]}", flush=True)
    summary = {}
    for mid, prop, verdict, detail, dt in rows:
        summary.setdefault(mid, {})[prop] = {"verdict": verdict, "detail": detail, "seconds": round(dt, 1), "tier": tier}
    path = os.path.join(HERE, BASE[0], "RESULTS.json")
    old = {}
    if os.path.exists(path):
        old = json.load(open(path))
    old.update(summary)
    json.dump(old, open(path, "w"), indent=1, sort_keys=True)
    caught = sum(1 for r in rows if r[2] == "CAUGHT")
    print(f"{caught}/{len(rows)} (mutant, property) pairs caught")


if __name__ == "__main__":
    main()
