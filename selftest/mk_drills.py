import os, subprocess, json, shutil, tempfile
REPO='/repo'; OUT='/verif/selftest/drills'
D = [
 ("c02-remove_ind-keeps-recipes","C02","cotengra/core.py",
  "        tree.already_optimized.clear()\n        # the index order of any modified node feeds into the contraction\n        # 'recipes' of all its ancestors -> reset these and compiled cores\n        tree.reset_contraction_indices()\n",
  "        tree.already_optimized.clear()\n        tree.contraction_cores.clear()\n", "re-introduces the stale-recipe window in remove_ind (needs sort_contraction_indices; contract; remove_ind; contract)"),
 ("c02-copy-shares-info","C02","cotengra/core.py",
  "                {k: v.copy() for k, v in getattr(other, attr).items()},",
  "                {k: v for k, v in getattr(other, attr).items()},", "copy() shares per-node info dicts: mutating the copy corrupts the original (needs copy; mutate copy; contract original)", ["C04"]),
 ("c02-anneal-keeps-cores","C02","cotengra/pathfinders/path_simulated_annealing.py",
  "    tree.reset_contraction_indices()\n\n    return tree\n\n\ndef _do_anneal",
  "    return tree\n\n\ndef _do_anneal", "annealing no longer invalidates recipes / compiled cores (needs contract; anneal; contract)"),
 ("c02-restore-keeps-cores","C02","cotengra/core.py",
  "        tree.already_optimized.clear()\n        tree.reset_contraction_indices()\n\n        return tree\n\n    restore_ind_",
  "        tree.already_optimized.clear()\n\n        return tree\n\n    restore_ind_", "restore_ind leaves compiled cores and recipes (needs slice; contract; unslice; contract)"),
 ("c04-remove_ind-forgets-flops-delta","C04","cotengra/core.py",
  "                tree._flops += new_flops - old_flops\n", "", "running flops total not adjusted when an index is removed"),
 ("c04-maxcounter-discard","C04","cotengra/utils.py", None, None, "MaxCounter.discard does not recompute the max"),
 ("c04-setstate-shares-sizes","C04","cotengra/core.py",
  "            self._sizes = other._sizes.copy()", "            self._sizes = other._sizes", "copy shares the MaxCounter", ["C02"]),
 ("c08-reconf-stale-stats","C08","cotengra/hyperoptimizers/hyper.py",
  "        tree.already_optimized.clear()\n        trial.update(tree.contract_stats())\n\n        return trial\n\n\nclass SlicedReconfTrialFn",
  "        tree.already_optimized.clear()\n\n        return trial\n\n\nclass SlicedReconfTrialFn", "ReconfTrialFn does not refresh the recorded stats after in-place reconfiguration"),
 ("c08-wrong-setting-reported","C08","cotengra/hyperoptimizers/hyper.py",
  "                    trial = future.result()\n                    self._maybe_report_result(setting, trial)",
  "                    trial = future.result()\n                    self._maybe_report_result(self._futures[0][0] if self._futures else setting, trial)", "result reported against the setting of another in-flight future (pool only, needs out-of-order completion)"),
 ("c08-failed-trial-zero-flops","C08","cotengra/hyperoptimizers/hyper.py",
  "        except BadTrial:\n            trial = {\n                \"score\": float(\"inf\"),\n                \"flops\": float(\"inf\"),",
  "        except BadTrial:\n            trial = {\n                \"score\": float(\"inf\"),\n                \"flops\": 0,", "BadTrial recorded with flops 0"),
 ("c13-key-ignores-output","C13","cotengra/interface.py",
  "    key = (inputs, output, tuple(size_dict.items()), optimize, kwargs)",
  "    key = (inputs, tuple(sorted(output, key=str)), tuple(size_dict.items()), optimize, kwargs)", "cache key ignores output ORDER"),
 ("c13-key-ignores-kwargs","C13","cotengra/interface.py",
  "    key = (inputs, output, tuple(size_dict.items()), optimize, kwargs)",
  "    key = (inputs, output, tuple(size_dict.items()), optimize)", "cache key ignores kwargs (strip_exponent etc.)"),
 ("c14-hash-ignores-sizes","C14","cotengra/reusable.py",
  "                sortedtuple(size_dict.items()),\n            )\n        )\n    ).hexdigest()\n\n\ndef hash_contraction_b",
  "                sortedtuple(size_dict),\n            )\n        )\n    ).hexdigest()\n\n\ndef hash_contraction_b", "hash 'a' ignores the sizes"),
 ("c14-improved-flipped","C14","cotengra/reusable.py",
  "                old_con = self._cache[h]\n                if con[\"score\"] < old_con[\"score\"]:\n                    # replace the old path",
  "                old_con = self._cache[h]\n                if con[\"score\"] > old_con[\"score\"]:\n                    # replace the old path", "overwrite='improved' keeps the worse one"),
 ("c14-reconstruct-drops-sliced","C14","cotengra/hyperoptimizers/hyper.py",
  "        for ix in con[\"sliced_inds\"]:\n            tree.remove_ind_(ix)\n\n        return tree",
  "        return tree", "reconstructed tree loses its sliced indices"),
 ("c15-inplace-write","C15","cotengra/utils.py",
  "            with open(tmp, \"wb\") as f:\n                pickle.dump(v, f)\n            os.replace(tmp, fname)",
  "            with open(fname, \"wb\") as f:\n                pickle.dump(v, f)", "back to in-place write"),
 ("c15-replace-before-write","C15","cotengra/utils.py",
  "            with open(tmp, \"wb\") as f:\n                pickle.dump(v, f)\n            os.replace(tmp, fname)",
  "            with open(tmp, \"wb\") as f:\n                os.replace(tmp, fname)\n                pickle.dump(v, f)", "rename happens before the data is written"),
 ("c16-suboptimizers-constant-key","C16","cotengra/reusable.py",
  "        thrid = threading.get_ident()\n        self._suboptimizers[thrid] = opt\n        return self._deconstruct_tree(opt, tree)",
  "        thrid = 0\n        self._suboptimizers[thrid] = opt\n        return self._deconstruct_tree(opt, tree)", "one shared 'last optimizer' slot for all threads", None, [("cotengra/reusable.py","        return self._suboptimizers.get(threading.get_ident(), None)","        return self._suboptimizers.get(0, None)")]),
 ("c16-auto-shared-hyper","C16","cotengra/presets.py",
  "        tid = threading.get_ident()\n        try:\n            return self._hyperoptimizers_by_thread[tid]",
  "        tid = 0\n        try:\n            return self._hyperoptimizers_by_thread[tid]", "AutoOptimizer shares one reusable hyper-optimizer between threads"),
 ("c17-slice-drops-seed","C17","cotengra/core.py",
  "            allow_outer=allow_outer,\n            seed=seed,\n        )\n\n        ix_sl, _ = sf.search(max_repeats)",
  "            allow_outer=allow_outer,\n        )\n\n        ix_sl, _ = sf.search(max_repeats)", "tree.slice does not forward its seed"),
 ("c17-forest-saplings-unseeded","C17","cotengra/core.py",
  "                        \"seed\": rng.randrange(2**32),\n", "", "forest saplings draw from the global RNG again"),
]
shutil.rmtree(OUT, ignore_errors=True); os.makedirs(OUT)
QUIET=True
for item in D:
    mid, prop, f, old, new, what = item[:6]
    also = item[6] if len(item)>6 and item[6] else []
    extra = item[7] if len(item)>7 else []
    wt = tempfile.mkdtemp(prefix='drill_'); os.rmdir(wt)
    subprocess.run(['git','-C',REPO,'worktree','add','-q','--detach',wt,'HEAD'],check=True)
    try:
        if mid=='c04-maxcounter-discard':
            p=os.path.join(wt,f); s=open(p).read()
            i=s.index('class MaxCounter'); j=s.index('def discard', i)
            print(s[j:j+700])
        else:
            edits=[(f,old,new)]+list(extra)
            for (ff,o,n) in edits:
                p=os.path.join(wt,ff); s=open(p).read()
                assert s.count(o)==1, (mid, s.count(o))
                open(p,'w').write(s.replace(o,n))
            diff=subprocess.run(['git','-C',wt,'diff','--','cotengra'],capture_output=True,text=True).stdout
            os.makedirs(os.path.join(OUT,mid))
            open(os.path.join(OUT,mid,'patch.diff'),'w').write(diff)
            json.dump({"property":prop,"also_check":also,"what":what,"source":"own drill (DESIGN sensitivity list)"}, open(os.path.join(OUT,mid,'meta.json'),'w'), indent=1)
    finally:
        subprocess.run(['git','-C',REPO,'worktree','remove','--force',wt])
print(sorted(os.listdir(OUT)))
# maxcounter drill
mid='c04-maxcounter-discard'
wt = tempfile.mkdtemp(prefix='drill_'); os.rmdir(wt)
subprocess.run(['git','-C',REPO,'worktree','add','-q','--detach',wt,'HEAD'],check=True)
p=os.path.join(wt,'cotengra/utils.py'); s=open(p).read()
o='''            if x == self._max_element:
                # only need to update the max if ``x``
                # was the last maximum sized element
                try:
                    self._max_element = max(self._c)
                except ValueError:
                    self._max_element = -float("inf")
'''
assert s.count(o)==1
open(p,'w').write(s.replace(o,'            if not self._c:\n                self._max_element = -float("inf")\n'))
diff=subprocess.run(['git','-C',wt,'diff','--','cotengra'],capture_output=True,text=True).stdout
os.makedirs(os.path.join(OUT,mid),exist_ok=True)
open(os.path.join(OUT,mid,'patch.diff'),'w').write(diff)
json.dump({"property":"C04","also_check":[],"what":"MaxCounter.discard does not recompute the maximum when the largest element leaves","source":"own drill (DESIGN sensitivity list)"}, open(os.path.join(OUT,mid,'meta.json'),'w'), indent=1)
subprocess.run(['git','-C',REPO,'worktree','remove','--force',wt])
