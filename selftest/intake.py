#!/venv/bin/python
"""Intake of a seeded change written by an independent sub-agent.

usage: selftest/intake.py <PROP> <agent _out dir> [--no-suite] [--only k] [--prefix r2]

For each mutant_k.diff in the directory: (1) the diff touches only cotengra/,
(2) in a fresh scratch worktree of /repo HEAD the demo passes on the clean tree,
(3) fails with the patch applied, (4) the pinned test-suite (minus the two tests
BASELINE.json lists as always failing) still passes with the patch applied.
Only then is it copied to /verif/seeded/<PROP>-m<k>/ (patch.diff, demo.py,
notes.md, meta.json).  The worktree is removed afterwards.
"""
import json
import os
import re
import shutil
import subprocess
import sys
import tempfile

HERE = os.path.dirname(os.path.dirname(os.path.abspath(__file__)))
REPO = "/repo"
PY = "/venv/bin/python"


def sh(cmd, cwd=None, env=None, timeout=3600):
    p = subprocess.run(cmd, cwd=cwd, env=env, capture_output=True, text=True, timeout=timeout)
    return p.returncode, (p.stdout + p.stderr)


def main():
    prop, outdir = sys.argv[1], sys.argv[2]
    no_suite = "--no-suite" in sys.argv
    prefix = ""
    if "--prefix" in sys.argv:
        prefix = sys.argv[sys.argv.index("--prefix") + 1]
    only = None
    if "--only" in sys.argv:
        only = int(sys.argv[sys.argv.index("--only") + 1])
    ks = sorted(int(m.group(1)) for f in os.listdir(outdir) if (m := re.fullmatch(r"mutant_(\d+)\.diff", f)))
    for k in ks:
        if only is not None and k != only:
            continue
        diff = os.path.join(outdir, f"mutant_{k}.diff")
        demo = os.path.join(outdir, f"demo_{k}.py")
        notes = os.path.join(outdir, f"mutant_{k}.md")
        mid = f"{prop}-{prefix}m{k}"
        files = re.findall(r"^\+\+\+ b/(\S+)", open(diff).read(), flags=re.M)
        if not files or any(not f.startswith("cotengra/") for f in files):
            print(f"{mid}: REJECT diff touches {files}")
            continue
        if not os.path.exists(demo):
            print(f"{mid}: REJECT no demo")
            continue
        wt = tempfile.mkdtemp(prefix=f"intake_{mid}_")
        os.rmdir(wt)
        try:
            subprocess.run(["git", "-C", REPO, "worktree", "add", "-q", "--detach", wt, "HEAD"], check=True)
            env = dict(os.environ)
            env["PYTHONPATH"] = wt
            env["PYTHONWARNINGS"] = "ignore"
            src = open(demo).read()
            # the demo may hard-code the agent's worktree path
            src2 = re.sub(r"/tmp/w[t0-9]_C\d\d", wt, src)
            dpath = os.path.join(wt, "_demo.py")
            open(dpath, "w").write(src2)
            helpers = [f for f in os.listdir(outdir) if f.endswith(".py") and not re.fullmatch(r"demo_\d+\.py", f)]
            for f in helpers:  # helper modules the demos import
                shutil.copy(os.path.join(outdir, f), os.path.join(wt, f))
            rc_clean, out_clean = sh([PY, dpath], cwd=wt, env=env, timeout=1200)
            rc, o = sh(["git", "-C", wt, "apply", diff])
            if rc != 0:
                print(f"{mid}: REJECT patch does not apply to /repo HEAD: {o[:200]}")
                continue
            rc_mut, out_mut = sh([PY, dpath], cwd=wt, env=env, timeout=1200)
            if rc_clean != 0 or rc_mut == 0:
                print(f"{mid}: REJECT demo clean-exit={rc_clean} mutant-exit={rc_mut}\n   clean: {out_clean[-300:]}\n   mutant: {out_mut[-300:]}")
                continue
            suite = "skipped"
            if not no_suite:
                rc_s, out_s = sh([PY, "-m", "pytest", "-q", "-p", "no:cacheprovider", "-n", "5", "-k", "not chocolate",
                                  "--timeout=900", "tests/"], cwd=wt, env=env, timeout=5400)
                tail = [l for l in out_s.splitlines() if " passed" in l or " failed" in l]
                suite = tail[-1].strip() if tail else out_s[-200:]
                if rc_s != 0:
                    print(f"{mid}: REJECT test-suite fails with the change: {suite}")
                    continue
            dst = os.path.join(HERE, "seeded", mid)
            shutil.rmtree(dst, ignore_errors=True)
            os.makedirs(dst)
            shutil.copy(diff, os.path.join(dst, "patch.diff"))
            open(os.path.join(dst, "demo.py"), "w").write(src)
            for f in helpers:
                shutil.copy(os.path.join(outdir, f), os.path.join(dst, f))
            if os.path.exists(notes):
                shutil.copy(notes, os.path.join(dst, "notes.md"))
            meta = {
                "property": prop,
                "source": "independent sub-agent given only the property text and a scratch worktree",
                "files_changed": files,
                "needs_to_manifest": (open(notes).read().strip()[:1500] if os.path.exists(notes) else ""),
                "confirmed": {
                    "demo_on_clean_tree_exit": rc_clean,
                    "demo_with_change_exit": rc_mut,
                    "demo_with_change_message": out_mut.strip()[-300:],
                    "test_suite_with_change": suite,
                    "how": "selftest/intake.py in a fresh scratch worktree of /repo HEAD (PYTHONPATH=<worktree>), pytest -n 5 -k 'not chocolate' tests/",
                },
            }
            json.dump(meta, open(os.path.join(dst, "meta.json"), "w"), indent=1)
            print(f"{mid}: ACCEPTED demo clean=0 mutant={rc_mut}; suite: {suite}")
        finally:
            subprocess.run(["git", "-C", REPO, "worktree", "remove", "--force", wt], capture_output=True)
            shutil.rmtree(wt, ignore_errors=True)


if __name__ == "__main__":
    main()
