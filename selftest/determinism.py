#!/venv/bin/python
"""Determinism self-test on a large sample (DESIGN §3.8).

usage: selftest/determinism.py <PROP>[,<PROP>...] [N=200] [--tier quick] [--seed S]

Every run index in 0..N-1 is executed twice under PYTHONHASHSEED=0 in *different*
fresh interpreters (different slice sizes, hence different in-process history)
and once under PYTHONHASHSEED=1; the event-log digests are compared.
Exit 0 iff the two hash-seed-0 executions agree on every index.
"""
import json
import os
import subprocess
import sys
from concurrent.futures import ThreadPoolExecutor

HERE = os.path.dirname(os.path.dirname(os.path.abspath(__file__)))


def digests(prop, tier, seed, idx, hashseed):
    env = dict(os.environ)
    env["VERIF_HASHSEED"] = hashseed
    env.pop("_VERIF_REEXEC", None)
    p = subprocess.run([sys.executable, os.path.join(HERE, "check.py"), prop, "--tier", tier, "--seed", str(seed),
                        "--digest-only", ",".join(map(str, idx))], env=env, capture_output=True, text=True, timeout=3600)
    line = [l for l in p.stdout.splitlines() if l.startswith("DIGESTS ")]
    if not line:
        raise RuntimeError(f"{prop} {idx[:3]}..: no digests\n{p.stdout[-800:]}\n{p.stderr[-800:]}")
    return json.loads(line[-1][8:])


def sliced(n, size):
    ids = list(range(n))
    return [ids[i:i + size] for i in range(0, n, size)]


def main():
    props = sys.argv[1].split(",")
    n = int(sys.argv[2]) if len(sys.argv) > 2 and not sys.argv[2].startswith("-") else 200
    tier = "quick"
    seed = 424242
    if "--tier" in sys.argv:
        tier = sys.argv[sys.argv.index("--tier") + 1]
    if "--seed" in sys.argv:
        seed = int(sys.argv[sys.argv.index("--seed") + 1])
    rc = 0
    for prop in props:
        runs = {}
        with ThreadPoolExecutor(16) as ex:
            for label, size, hs in (("A", max(1, n // 16), "0"), ("B", max(1, n // 7), "0"), ("H1", max(1, n // 16), "1")):
                futs = [ex.submit(digests, prop, tier, seed, sl, hs) for sl in sliced(n, size)]
                d = {}
                for f in futs:
                    d.update(f.result())
                runs[label] = d
        bad = [i for i in range(n) if runs["A"][str(i)] != runs["B"][str(i)]]
        badh = [i for i in range(n) if runs["A"][str(i)] != runs["H1"][str(i)]]
        print(f"{prop}: {n} run indices x 2 fresh interpreters (PYTHONHASHSEED=0, different slicing): "
              f"{'IDENTICAL' if not bad else 'DIFFER at ' + str(bad[:20])}; PYTHONHASHSEED=1: "
              f"{'identical' if not badh else 'differ at ' + str(badh[:20])}")
        if bad:
            rc = 1
    return rc


if __name__ == "__main__":
    sys.exit(main())
