import json
NA = {
 "C01": "pure function of (network, tree, options): no schedule, clock, I/O, fault or shared state in the statement; deterministic simulation has nothing to vary (its content is the zero-length-history case of C02's machine)",
 "C03": "pure function of (network, tree, sliced set, traversal order): nothing for a simulator to schedule or fault",
 "C05": "pure function of (network, hyper-parameters, seed) per pathfinder; the only scheduled surface (HyperOptimizer on a pool) is decided under C08",
 "C06": "pure mixed-radix / stacking arithmetic over slice numbers; no concurrency, time or I/O (contract_mpi only supports the plain-sum case and tolerates no fault)",
 "C07": "pure function of (tree, targets, seed): no interleaving, clock or fault involved",
 "C09": "universally quantified optimality over all trees of a fixed input: exhaustive enumeration / model checking territory, not simulation",
 "C10": "pure conversion functions between path formats",
 "C11": "pure numerical functions of (equation, operands)",
 "C12": "pure parsing / dispatch functions of the call form",
 "C18": "pure functions replaying one contraction order in several cost simulators (the reusable-optimizer score clause is checked as oracle (i) of C14)",
 "C19": "pure floating-point numerics; overflow is an input regime, not an injectable fault",
 "C20": "pure functions of (network, tree, order, chi)",
}
def chk(pid, engine, level, text, note, tech, ref):
    return {
      "property_id": pid,
      "quick_cmd": f"/venv/bin/python check.py {pid} --tier quick",
      "thorough_cmd": f"/venv/bin/python check.py {pid} --tier thorough",
      "evidence_file": f"/verif/evidence/{pid}.json",
      "replay_cmd_template": f"/venv/bin/python check.py {pid} --replay {{path}}",
      "engine": engine,
      "level_claimed": {"category": level, "text": text, "design_ref": ref},
      "level_note": note,
      "technique": tech,
    }
import sys
built = json.load(open('/verif/selftest/manifest_checks.json'))
checks = [chk(**b) for b in built]
claimed = {b['pid'] for b in built}
ALL8 = {"C02":"hist","C04":"hist","C08":"hyper","C13":"cache","C14":"store","C15":"store","C16":"threads","C17":"detenv"}
na = [{"property_id":k,"reason":v} for k,v in sorted(NA.items())]
for k,e in ALL8.items():
    if k not in claimed:
        na.append({"property_id":k,"reason":f"not claimed yet: engine '{e}' (DESIGN.md section 4) is still being built in this round; simulation does apply to it"})
na.sort(key=lambda d:d['property_id'])
m = {
 "version": 1,
 "setup_cmd": "/venv/bin/python -c \"import sys; sys.path.insert(0,'/verif'); import sim.driver, hypothesis, numpy; sys.path.insert(0,'/repo'); import cotengra; print('ok', cotengra.__file__)\"",
 "hooks": {
   "guard": "COTENGRA_VERIF",
   "enable": "no hook exists in /repo: every seam the simulator needs is a module global or a public parameter (parallel=, directory=, seed=, time.*, builtins.open, threading module attribute); checks import cotengra straight from /repo's working tree (editable install / sys.path)",
   "baseline_off_cmd": "cd /repo && /venv/bin/python -m pytest -q -p no:cacheprovider --timeout=900 --continue-on-collection-errors",
   "source_commits": [],
   "add_only": True
 },
 "engines": [
  {"name":"hist","path":"engines/hist.py","serves_properties":["C02","C04"],"kind_free_text":"seeded stateful history machine over live ContractionTree objects; SimPool + virtual clock inside forest/tempering ops; deepcopy-snapshot oracles; ddmin minimiser"},
  {"name":"hyper","path":"engines/hyper.py","serves_properties":["C08"],"kind_free_text":"real HyperOptimizer on a simulated pool (seeded completion order, thread/process fidelity) with a virtual clock, injected trial faults and clock jumps; invariants + serial fault-free reference"},
  {"name":"store","path":"engines/store.py","serves_properties":["C14","C15"],"kind_free_text":"reusable optimizers over a simulated file system (interposed open/os mutators in front of a scratch directory): clean restarts for C14, exhaustive crash-point enumeration with byte-exact torn writes for C15"},
  {"name":"cache","path":"engines/cache.py","serves_properties":["C13"],"kind_free_text":"call histories over the process-global interface caches with eviction faults; lock-step differential against the uncached call"},
  {"name":"threads","path":"engines/threads.py","serves_properties":["C16"],"kind_free_text":"baton-passing scheduler over real caller threads with sys.settrace pre-emption points and simulator-assigned thread idents"},
  {"name":"detenv","path":"engines/detenv.py","serves_properties":["C17"],"kind_free_text":"environment-perturbation simulation: same seeded cases in fresh interpreters with different PYTHONHASHSEED, global RNG state, warm-up history, case order and pool completion order"},
 ],
 "checks": checks,
 "not_applicable": na,
 "notes": "Technique family: deterministic simulation with fault injection. Exit codes: 0 held (KNOWN-FINDING lines allowed), 1 + 'VIOLATION property=<id> replay=<path>', 2 HARNESS-ERROR. Every check re-execs itself with PYTHONHASHSEED=0, runs its seeded batch on a fork pool, replays a sample of run indices in a fresh interpreter and compares event-log digests (determinism self-test), minimises and re-verifies every violation in a fresh interpreter before reporting it. VERIF_SEED / VERIF_TIER / VERIF_WORKERS / VERIF_REPO are honoured."
}
json.dump(m, open('/verif/MANIFEST.json','w'), indent=1)
