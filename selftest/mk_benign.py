import os, subprocess, json, shutil, tempfile
REPO='/repo'; OUT='/verif/selftest/benign'
D = [
 ("b1-tmpname-uuid","C15",["C14"],[("cotengra/utils.py",
   '            tmp = fname.with_name(\n                f".{fname.name}.{os.getpid()}.{threading.get_ident()}.tmp"\n            )',
   '            import uuid\n\n            tmp = fname.with_name(f".{fname.name}.{uuid.uuid4().hex}.tmp")')],
   "temporary file named with a uuid instead of pid/thread ident"),
 ("b2-fsync-before-replace","C15",[],[("cotengra/utils.py",
   '                pickle.dump(v, f)\n            os.replace(tmp, fname)',
   '                pickle.dump(v, f)\n                f.flush()\n                os.fsync(f.fileno())\n            os.replace(tmp, fname)')],
   "flush + fsync before the rename (stronger durability, same crash behaviour)"),
 ("b3-poll-futures-in-reverse","C08",[],[("cotengra/hyperoptimizers/hyper.py",
   '            for i in range(len(self._futures)):\n                setting, future = self._futures[i]',
   '            for i in reversed(range(len(self._futures))):\n                setting, future = self._futures[i]')],
   "the poll loop scans the pending futures newest-first: a different but equally valid reporting order"),
 ("b4-smaller-smudge","C08",[],[("cotengra/hyperoptimizers/hyper.py",
   '        score_smudge=1e-6,', '        score_smudge=1e-7,')],
   "smaller random score smudge"),
 ("b5-cache-key-component-order","C13",[],[("cotengra/interface.py",
   '    key = (inputs, output, tuple(size_dict.items()), optimize, kwargs)',
   '    key = (optimize, kwargs, inputs, output, tuple(size_dict.items()))')],
   "cache key components in another order"),
 ("b6-leaf-info-replaced-not-cleared","C02",["C04"],[("cotengra/core.py",
   '        if node_extent == 1:\n            # leaf nodes should always exist\n            self.info[node].clear()',
   '        if node_extent == 1:\n            # leaf nodes should always exist\n            self.info[node] = {}')],
   "leaf info dict replaced by a fresh dict instead of cleared in place"),
 ("b7-improved-overwrites-on-ties","C14",[],[("cotengra/reusable.py",
   '                old_con = self._cache[h]\n                if con["score"] < old_con["score"]:\n                    # replace the old path',
   '                old_con = self._cache[h]\n                if con["score"] <= old_con["score"]:\n                    # replace the old path')],
   "overwrite='improved' also overwrites on an exactly equal score (stored score still never gets worse)"),
 ("b8-auto-thread-local","C16",[],[("cotengra/presets.py",
   '        tid = threading.get_ident()\n        try:\n            return self._hyperoptimizers_by_thread[tid]\n        except KeyError:\n            opt = self._optimizer_hyper_cls(\n                minimize=self.minimize, **self.kwargs\n            )\n            self._hyperoptimizers_by_thread[tid] = opt\n            return opt',
   '        tid = (threading.get_ident(), id(threading.current_thread()))\n        try:\n            return self._hyperoptimizers_by_thread[tid]\n        except KeyError:\n            opt = self._optimizer_hyper_cls(\n                minimize=self.minimize, **self.kwargs\n            )\n            self._hyperoptimizers_by_thread[tid] = opt\n            return opt')],
   "per-thread optimizers keyed by (ident, thread object id)"),
 ("b9-candidate-tiebreak","C17",["C02"],[("cotengra/core.py",
   '            *sorted(zip(candidates, weights), key=lambda x: -x[1])',
   '            *sorted(zip(candidates, weights), key=lambda x: (-x[1], len(x[0]), min(x[0])))')],
   "subtree candidates get a deterministic secondary sort key: different but equally seeded-deterministic results"),
 ("b10-gumbel-batched-from-own-rng","C17",[],[("cotengra/utils.py",
   '    def __init__(self, seed=None):\n        self.rng = get_rng(seed)\n\n    def __call__(self):\n        return -math.log(-math.log(self.rng.random()))',
   '    def __init__(self, seed=None):\n        self.rng = get_rng(seed)\n        self._batch = []\n\n    def __call__(self):\n        if not self._batch:\n            r = self.rng.random\n            self._batch = [-math.log(-math.log(r())) for _ in range(64)]\n        return self._batch.pop()')],
   "Gumbel numbers drawn in batches of 64 from the generator's OWN seeded rng: another stream, still a function of the seed"),
 ("b11-fingerprint-repr-text","C14",["C15"],[("cotengra/reusable.py",
   '    return hashlib.sha1(\n        pickle.dumps(\n            (\n                tuple(map(sortedtuple, inputs)),\n                sortedtuple(output),\n                sortedtuple(size_dict.items()),\n            )\n        )\n    ).hexdigest()',
   '    return hashlib.sha1(\n        repr(\n            (\n                tuple(map(sortedtuple, inputs)),\n                sortedtuple(output),\n                sortedtuple(size_dict.items()),\n            )\n        ).encode()\n    ).hexdigest()')],
   "fingerprint 'a' hashes the repr() text of the same canonical tuple (unambiguous: quotes and commas delimit the labels)"),
 ("b12-futures-list-made-in-init","C16",["C08"],[("cotengra/hyperoptimizers/hyper.py",
   '        self._pool = parse_parallel_arg(parallel)',
   '        self._pool = parse_parallel_arg(parallel)\n        self._futures = []')],
   "the per-instance list of pending futures also exists right after construction (still one list per optimizer object)"),
]
shutil.rmtree(OUT, ignore_errors=True); os.makedirs(OUT)
for mid, prop, also, edits, what in D:
    wt = tempfile.mkdtemp(prefix='benign_'); os.rmdir(wt)
    subprocess.run(['git','-C',REPO,'worktree','add','-q','--detach',wt,'HEAD'],check=True)
    try:
        for (ff,o,n) in edits:
            p=os.path.join(wt,ff); s=open(p).read()
            assert s.count(o)==1, (mid, s.count(o))
            open(p,'w').write(s.replace(o,n))
        diff=subprocess.run(['git','-C',wt,'diff','--','cotengra'],capture_output=True,text=True).stdout
        os.makedirs(os.path.join(OUT,mid))
        open(os.path.join(OUT,mid,'patch.diff'),'w').write(diff)
        json.dump({"property":prop,"also_check":also,"what":what,"expected":"SILENT (the property still holds)","source":"own negative control"}, open(os.path.join(OUT,mid,'meta.json'),'w'), indent=1)
    finally:
        subprocess.run(['git','-C',REPO,'worktree','remove','--force',wt])
print(sorted(os.listdir(OUT)))
