"""Virtual clock.  ``install()`` must be called before cotengra is imported.

``time.time/monotonic/perf_counter/sleep`` are replaced by thin wrappers that
delegate to the real functions unless a simulation is active, in which case
they read / advance the active :class:`VirtualClock`.
"""

import heapq
import sys as _sys
import time as _time

_real = {
    "time": _time.time,
    "monotonic": _time.monotonic,
    "perf_counter": _time.perf_counter,
    "sleep": _time.sleep,
}

_ACTIVE = None  # the active VirtualClock or None
_INSTALLED = False

EPOCH0 = 1_700_000_000.0


class VirtualClock:
    """Discrete-event clock: ``now`` plus a heap of (time, seq, callback)."""

    def __init__(self):
        self.now = 0.0
        self.skew = 0.0
        self._seq = 0
        self._heap = []
        self.reads = 0
        self.sleeps = 0
        self.jumps = 0
        # hook called on every time.time() read (fault injection: clock jumps)
        self.on_read = None
        # fault: a polling loop that sleeps "too long": callable -> number of
        # EXTRA scheduled events to absorb in one sleep (several completions
        # become visible at the same poll)
        self.oversleep = None
        self.sleep_hook = None

    # -- event queue ----------------------------------------------------
    def after(self, delay, fn):
        self._seq += 1
        heapq.heappush(self._heap, (self.now + delay, self._seq, fn))

    def at(self, t, fn):
        self._seq += 1
        heapq.heappush(self._heap, (max(t, self.now), self._seq, fn))

    def next_event_time(self):
        return self._heap[0][0] if self._heap else None

    def run_due(self):
        """Run every event whose time has come."""
        n = 0
        while self._heap and self._heap[0][0] <= self.now:
            _, _, fn = heapq.heappop(self._heap)
            fn()
            n += 1
        return n

    def advance_to_next_event(self):
        """Jump the clock to the next scheduled event (if any) and run it."""
        if not self._heap:
            return False
        t = self._heap[0][0]
        if t > self.now:
            self.now = t
        self.run_due()
        return True

    def pending(self):
        return len(self._heap)

    # -- what the system under test sees -------------------------------------
    def time(self, counted=True):
        if counted:
            self.reads += 1
            if self.on_read is not None:
                self.on_read(self)
        return EPOCH0 + self.now + self.skew

    def sleep(self, d):
        self.sleeps += 1
        if self.sleep_hook is not None:
            # a pre-emptive thread simulation owns waiting: time passes, somebody else runs
            self.now += max(0.0, d)
            self.sleep_hook()
            return
        target = self.now + max(0.0, d)
        nxt = self.next_event_time()
        if nxt is not None and nxt > target:
            # a polling loop: nothing can change before the next event
            target = nxt
        self.now = target
        self.run_due()
        if self.oversleep is not None:
            extra = self.oversleep()
            while extra > 0 and self._heap:
                extra -= 1
                self.now = max(self.now, self._heap[0][0])
                self.run_due()

    def jump(self, delta):
        """Clock step (NTP style) seen by time.time() only; event times keep
        running on the monotonic ``now``."""
        self.jumps += 1
        self.skew += delta


def _time_time():
    c = _ACTIVE
    if c is None:
        return _real["time"]()
    # only reads made by the system under test advance / fault the clock: a
    # third-party module that happens to read the time while being lazily
    # imported must not shift the schedule (replay determinism)
    name = _sys._getframe(1).f_globals.get("__name__", "")
    return c.time(counted=name.startswith("cotengra"))


def _time_monotonic():
    c = _ACTIVE
    return _real["monotonic"]() if c is None else c.now


def _time_perf_counter():
    c = _ACTIVE
    return _real["perf_counter"]() if c is None else c.now


def _time_sleep(d):
    c = _ACTIVE
    if c is None:
        return _real["sleep"](d)
    c.sleep(d)


def install():
    global _INSTALLED
    if _INSTALLED:
        return
    _time.time = _time_time
    _time.monotonic = _time_monotonic
    _time.perf_counter = _time_perf_counter
    _time.sleep = _time_sleep
    _INSTALLED = True


def real_time():
    return _real["time"]()


def real_monotonic():
    return _real["monotonic"]()


def real_sleep(d):
    return _real["sleep"](d)


class activate:
    """Context manager making ``clock`` the active virtual clock."""

    def __init__(self, clock):
        self.clock = clock

    def __enter__(self):
        global _ACTIVE
        self._prev = _ACTIVE
        _ACTIVE = self.clock
        return self.clock

    def __exit__(self, *exc):
        global _ACTIVE
        _ACTIVE = self._prev
        return False
