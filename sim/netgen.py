"""Random network / tree / array generators (independent of cotengra's own)."""

import math
import string

import numpy as np

SYMS = string.ascii_lowercase + string.ascii_uppercase


def gen_network(rng, n_min=2, n_max=9, max_inds=12, dims=(1, 2, 2, 3), max_rank=5,
                space_cap=2 ** 16, feat=None):
    """Return (inputs, output, size_dict, features) with single-char indices.

    ``feat`` is a dict of swarm toggles: hyper, repeated, scalar, outer,
    disconnected, out_hyper, out_edge, empty_output, dangling_sum.
    """
    if feat is None:
        feat = {}
    for _ in range(200):
        n = rng.randint(n_min, n_max)
        terms = [[] for _ in range(n)]
        inds = []
        size_dict = {}

        def new_ind():
            ix = SYMS[len(inds)]
            inds.append(ix)
            size_dict[ix] = rng.choice(dims)
            return ix

        def room(t):
            return len(terms[t]) < max_rank

        # spanning structure (unless disconnected parts are allowed)
        order = list(range(n))
        rng.shuffle(order)
        if feat.get("disconnected") and n >= 3:
            # split into two or three components, connect inside each
            k = rng.randint(2, min(3, n))
            comps = [[] for _ in range(k)]
            for i, t in enumerate(order):
                comps[i % k].append(t)
        else:
            comps = [order]
        for comp in comps:
            for i in range(1, len(comp)):
                a = comp[i]
                b = comp[rng.randrange(i)]
                if feat.get("outer") and rng.random() < 0.25:
                    continue  # leave this link out: outer product needed
                if len(inds) >= max_inds or not (room(a) and room(b)):
                    continue
                ix = new_ind()
                terms[a].append(ix)
                terms[b].append(ix)
        # extra edges / hyper edges / dangling
        extra = rng.randint(0, max(0, min(max_inds - len(inds), n)))
        for _ in range(extra):
            if len(inds) >= max_inds:
                break
            r = rng.random()
            if feat.get("hyper") and r < 0.35 and n >= 3:
                k = rng.randint(3, min(4, n))
            elif r < 0.6:
                k = 1
            else:
                k = 2
            pool = [t for t in range(n) if room(t)]
            if len(pool) < k:
                continue
            ts = rng.sample(pool, k)
            ix = new_ind()
            for t in ts:
                terms[t].append(ix)
        # repeated index inside a tensor (trace / diagonal)
        if feat.get("repeated"):
            for _ in range(rng.randint(1, 2)):
                cands = [t for t in range(n) if terms[t] and room(t)]
                if cands:
                    t = rng.choice(cands)
                    terms[t].append(rng.choice(terms[t]))
        # scalars
        if feat.get("scalar") and n >= 3:
            t = rng.randrange(n)
            terms[t] = []
        for t in terms:
            rng.shuffle(t)
        # appearances
        app = {}
        for t in terms:
            for ix in set(t):
                app[ix] = app.get(ix, 0) + 1
        used = [ix for ix in inds if ix in app]
        size_dict = {ix: size_dict[ix] for ix in used}
        # output
        output = []
        if not feat.get("empty_output"):
            for ix in used:
                a = app[ix]
                if a == 1:
                    # dangling: normally output, sometimes summed on its tensor
                    if not (feat.get("dangling_sum") and rng.random() < 0.5):
                        output.append(ix)
                elif a >= 3:
                    if feat.get("out_hyper") and rng.random() < 0.5:
                        output.append(ix)
                else:
                    if feat.get("out_edge") and rng.random() < 0.2:
                        output.append(ix)
        rng.shuffle(output)
        if len(output) > 6:
            output = output[:6]
        space = 1
        for ix in used:
            space *= size_dict[ix]
        if space > space_cap:
            continue
        if n < 2:
            continue
        return [list(t) for t in terms], list(output), size_dict
    raise RuntimeError("could not generate a network within the caps")


def make_arrays(inputs, size_dict, seed, complex_=False, dtype=None):
    g = np.random.default_rng(seed)
    arrays = []
    for term in inputs:
        shape = tuple(size_dict[ix] for ix in term)
        if dtype == "int":
            # small POSITIVE integers: exact reference, a dtype that in-place float arithmetic cannot be written back
            # into, and no intermediate is ever all-zero (strip_exponent documents nan for those unless check_zero)
            arrays.append(g.integers(1, 4, size=shape).astype(np.int64))
            continue
        if dtype == "float32":
            arrays.append(g.uniform(-1.0, 1.0, size=shape).astype(np.float32))
            continue
        x = g.uniform(-1.0, 1.0, size=shape)
        if complex_:
            x = x + 1j * g.uniform(-1.0, 1.0, size=shape)
        arrays.append(x)
    return arrays


def einsum_eq(inputs, output):
    return ",".join("".join(t) for t in inputs) + "->" + "".join(output)


def reference(inputs, output, arrays):
    """numpy.einsum, no path optimisation: independent of cotengra."""
    return np.einsum(einsum_eq(inputs, output), *arrays, optimize=False)


def reference_abs(inputs, output, arrays):
    """einsum of |arrays|: the condition-aware error scale."""
    return np.einsum(einsum_eq(inputs, output), *[np.abs(a) for a in arrays], optimize=False)


def random_ssa_path(rng, n):
    """Uniformly random pairing order (includes outer-product steps)."""
    live = list(range(n))
    nxt = n
    path = []
    while len(live) > 1:
        i, j = rng.sample(range(len(live)), 2)
        a, b = live[i], live[j]
        for x in sorted((i, j), reverse=True):
            live.pop(x)
        path.append([min(a, b), max(a, b)])
        live.append(nxt)
        nxt += 1
    return path


def index_space(size_dict):
    return math.prod(size_dict.values()) if size_dict else 1


def is_connected(inputs):
    """True if the tensors form one connected component (sharing indices)."""
    n = len(inputs)
    if n <= 1:
        return True
    seen = {0}
    stack = [0]
    sets = [set(t) for t in inputs]
    while stack:
        i = stack.pop()
        for j in range(n):
            if j not in seen and sets[i] & sets[j]:
                seen.add(j)
                stack.append(j)
    return len(seen) == n
