"""One integer decides everything: named, independent PRNG sub-streams."""

import hashlib
import random


def H(*parts):
    """Stable 63-bit integer hash of the parts (independent of PYTHONHASHSEED)."""
    h = hashlib.sha256()
    for p in parts:
        h.update(repr(p).encode())
        h.update(b"\x00")
    return int.from_bytes(h.digest()[:8], "big") >> 1


def stream(seed, name):
    """A private ``random.Random`` for decision family ``name`` of run ``seed``."""
    return random.Random(H(seed, name))


def run_seed(verif_seed, prop, index):
    return H(verif_seed, prop, index)


def reseed_globals(seed):
    """Put the *global* generators in a state that is a function of ``seed``."""
    import numpy as np

    random.seed(H(seed, "global-random"))
    np.random.seed(H(seed, "global-numpy") % (2**32))
