"""Simulated file system seam (DESIGN §3.5).

The disk is a real scratch directory; only *mutations* below ``root`` are
interposed, so that every mutation is a numbered crash point, writes can be
torn at any byte, and after the crash instant nothing else reaches the disk
even though Python unwinds ``with``/``finally`` blocks.

Durability model: process death with the OS surviving - completed system calls
are durable, fsync is irrelevant.
"""

import builtins
import io
import os
import shutil

_real = {
    "builtins.open": builtins.open,
    "io.open": io.open,
    "os.open": os.open,
    "os.write": os.write,
    "os.close": os.close,
    "os.mkdir": os.mkdir,
    "os.makedirs": os.makedirs,
    "os.replace": os.replace,
    "os.rename": os.rename,
    "os.unlink": os.unlink,
    "os.remove": os.remove,
    "os.rmdir": os.rmdir,
    "os.truncate": os.truncate,
    "os.ftruncate": os.ftruncate,
    "os.fsync": os.fsync,
    "os.link": os.link,
    "os.symlink": os.symlink,
    "os.fdopen": os.fdopen,
    "os.sendfile": getattr(os, "sendfile", None),
    "os.copy_file_range": getattr(os, "copy_file_range", None),
}

_ACTIVE = None
_INSTALLED = False


class SimCrash(BaseException):
    """The simulated process was killed at this instant."""


class DiskFault(OSError):
    pass


class SimFS:
    """One simulated process' view of the store.

    crash_at : None or (op_index, byte_offset)
        ops with index < op_index complete; op ``op_index`` persists exactly
        ``byte_offset`` bytes if it is a write (0 otherwise: it does not
        happen), then SimCrash is raised and the layer goes inert.
    exit_mode : bool
        instead of raising, call os._exit(137) (real-kill fidelity check).
    """

    def __init__(self, root, crash_at=None, exit_mode=False, buffered=False):
        # buffered: file objects behave like io.BufferedWriter (data reaches the
        # disk at flush / close / when more than 8 KiB are pending); otherwise
        # every write() is a syscall of its own.  A killed process loses its
        # user-space buffers.
        self.buffered = buffered
        self.root = os.path.realpath(root)
        self.crash_at = crash_at
        self.exit_mode = exit_mode
        self.ops = []  # (kind, relpath, nbytes)
        self.crashed = False
        self.error_at = None  # set of op indices whose syscall fails with ENOSPC
        self.errors_fired = 0
        self.on_error = None
        self.error_bytes = None  # for a failing write(): this many bytes reach the disk before ENOSPC is raised
        self._die_after = False
        self.fds = {}  # raw fds handed out by os.open -> path
        self.simfiles = {}  # fd -> SimFile (for sendfile / copy_file_range into our files)

    # -- helpers -----------------------------------------------------------
    def owns(self, path):
        try:
            p = os.path.realpath(os.fspath(path))
        except TypeError:
            return False
        return p == self.root or p.startswith(self.root + os.sep)

    def rel(self, path):
        return os.path.relpath(os.path.realpath(os.fspath(path)), self.root)

    def _die(self):
        self.crashed = True
        if self.exit_mode:
            os._exit(137)
        raise SimCrash()

    def gate(self, kind, path, nbytes=0):
        """Called before a mutating op. Returns the number of bytes allowed
        (for writes) or raises SimCrash."""
        if self.crashed:
            # inert: unwinding code of a dead process reaches nothing
            raise SimCrash()
        idx = len(self.ops)
        self.ops.append((kind, self.rel(path) if path is not None else None, nbytes))
        if self.error_at is not None and idx in self.error_at:
            # disk fault: this system call fails (disk full / I/O error); the process lives on
            import errno

            self.errors_fired += 1
            if self.on_error is not None:
                self.on_error()
            if kind == "write" and self.error_bytes:
                # the disk fills up in the middle of this write: a prefix is persisted, then the call fails
                self._pending_fault = DiskFault(errno.ENOSPC, "No space left on device (injected, partial write)",
                                                os.fspath(path) if path is not None else None)
                return min(nbytes, int(self.error_bytes))
            raise DiskFault(errno.ENOSPC, "No space left on device (injected)", os.fspath(path) if path is not None else None)
        if self.crash_at is not None and idx == self.crash_at[0]:
            if kind == "write":
                return min(nbytes, max(0, int(self.crash_at[1])))
            if int(self.crash_at[1]) < 0:
                # crash right AFTER this op completes (and before any un-gated
                # call that may follow it): the wrapper calls post()
                self._die_after = True
                return nbytes
            self._die()
        return nbytes

    def post(self):
        """Called by the wrappers when a gated non-write op has completed."""
        if self._die_after:
            self._die_after = False
            self._die()


class SimFile(io.BufferedIOBase):
    """File object whose writes are crash-gated syscalls (write-through, or
    buffered like io.BufferedWriter when the SimFS says so)."""

    def __init__(self, fs, path, fd, mode, closefd=True):
        self.fs = fs
        self.path = path
        self.fd = fd
        self.mode = mode
        self._closed = False
        self.name = path
        self._closefd = closefd
        self._buf = bytearray()

    # context manager
    def __enter__(self):
        return self

    def __exit__(self, *exc):
        self.close()
        return False

    def writable(self):
        return True

    def readable(self):
        return "+" in self.mode or "r" in self.mode

    def seekable(self):
        return True

    def fileno(self):
        return self.fd

    def write(self, data):
        if self.fs.crashed:
            raise SimCrash()
        if isinstance(data, str):
            data = data.encode()
        data = bytes(data)
        if self.fs.buffered:
            self._buf += data
            if len(self._buf) > 8192:
                self._flush_buffer()
            return len(data)
        return self._syscall_write(data)

    def _flush_buffer(self):
        if self._buf:
            data = bytes(self._buf)
            self._buf.clear()
            self._syscall_write(data)

    def _syscall_write(self, data):
        allowed = self.fs.gate("write", self.path, len(data))
        view = memoryview(data)[:allowed]
        while len(view):
            n = _real["os.write"](self.fd, view)
            view = view[n:]
        pf = getattr(self.fs, "_pending_fault", None)
        if pf is not None:
            self.fs._pending_fault = None
            raise pf
        if allowed < len(data) or (self.fs.crash_at is not None and len(self.fs.ops) - 1 == self.fs.crash_at[0]):
            self.fs._die()
        return len(data)

    def writelines(self, lines):
        for l in lines:
            self.write(l)

    def read(self, n=-1):
        chunks = []
        while True:
            b = os.read(self.fd, 65536 if n < 0 else n)
            if not b:
                break
            chunks.append(b)
            if n >= 0:
                break
        return b"".join(chunks)

    def readline(self):
        out = bytearray()
        while True:
            b = os.read(self.fd, 1)
            if not b:
                break
            out += b
            if b == b"\n":
                break
        return bytes(out)

    def readinto(self, buf):
        b = os.read(self.fd, len(buf))
        buf[: len(b)] = b
        return len(b)

    def seek(self, pos, whence=0):
        if not self.fs.crashed:
            self._flush_buffer()
        return os.lseek(self.fd, pos, whence)

    def tell(self):
        return os.lseek(self.fd, 0, 1)

    def truncate(self, size=None):
        if size is None:
            size = self.tell()
        self.fs.gate("ftruncate", self.path)
        try:
            _real["os.ftruncate"](self.fd, size)
        finally:
            self.fs.post()
        return size

    def flush(self):
        if self.fs.crashed:
            raise SimCrash()
        self._flush_buffer()

    @property
    def closed(self):
        return self._closed

    def close(self):
        if self._closed:
            return
        try:
            if not self.fs.crashed:
                self._flush_buffer()
        finally:
            self._closed = True
            self.fs.fds.pop(self.fd, None)
            self.fs.simfiles.pop(self.fd, None)
            if self._closefd:
                try:
                    _real["os.close"](self.fd)
                except OSError:
                    pass


_WRITE_FLAGS = os.O_WRONLY | os.O_RDWR | os.O_CREAT | os.O_TRUNC | os.O_APPEND


def _mode_flags(mode):
    m = mode.replace("b", "").replace("t", "")
    plus = "+" in m
    m = m.replace("+", "")
    if m == "w":
        return (os.O_RDWR if plus else os.O_WRONLY) | os.O_CREAT | os.O_TRUNC
    if m == "x":
        return (os.O_RDWR if plus else os.O_WRONLY) | os.O_CREAT | os.O_EXCL
    if m == "a":
        return (os.O_RDWR if plus else os.O_WRONLY) | os.O_CREAT | os.O_APPEND
    if m == "r" and plus:
        return os.O_RDWR
    return None


def _p_open(file, mode="r", *args, **kwargs):
    fs = _ACTIVE
    if fs is None:
        return _real["io.open"](file, mode, *args, **kwargs)
    if isinstance(file, int):
        if file in fs.fds and any(c in mode for c in "wax+"):
            closefd = kwargs.get("closefd", True)
            return SimFile(fs, fs.fds[file], file, mode, closefd=closefd)
        return _real["io.open"](file, mode, *args, **kwargs)
    if not fs.owns(file):
        return _real["io.open"](file, mode, *args, **kwargs)
    flags = _mode_flags(mode)
    if flags is None:
        if fs.crashed:
            raise SimCrash()
        return _real["io.open"](file, mode, *args, **kwargs)
    text = "b" not in mode
    path = os.fspath(file)
    fs.gate("open:" + mode.replace("b", ""), path)
    try:
        fd = _real["os.open"](path, flags, 0o666)
    except OSError:
        fs.post()
        raise
    if fs._die_after:
        _real["os.close"](fd)
        fs.post()
    f = SimFile(fs, path, fd, mode)
    fs.simfiles[fd] = f
    if text:
        # text mode: the usual TextIOWrapper on top (its pending text is lost too when the process dies)
        enc = kwargs.get("encoding") or (args[1] if len(args) > 1 and args[1] else None) or "utf-8"
        return io.TextIOWrapper(f, encoding=enc, errors=kwargs.get("errors"), newline=kwargs.get("newline"),
                                write_through=not fs.buffered)
    return f


def _p_os_open(path, flags, mode=0o777, *a, **k):
    fs = _ACTIVE
    if fs is None or isinstance(path, int) or not fs.owns(path) or not (flags & _WRITE_FLAGS):
        return _real["os.open"](path, flags, mode, *a, **k)
    fs.gate("os.open", path)
    try:
        fd = _real["os.open"](path, flags, mode, *a, **k)
    except OSError:
        fs.post()
        raise
    if fs._die_after:
        _real["os.close"](fd)
        fs.post()
    fs.fds[fd] = os.fspath(path)
    return fd


def _p_os_write(fd, data):
    fs = _ACTIVE
    if fs is None or fd not in fs.fds:
        return _real["os.write"](fd, data)
    data = bytes(data)
    allowed = fs.gate("write", fs.fds[fd], len(data))
    n = 0
    view = memoryview(data)[:allowed]
    while len(view):
        w = _real["os.write"](fd, view)
        view = view[w:]
        n += w
    if allowed < len(data) or (fs.crash_at is not None and len(fs.ops) - 1 == fs.crash_at[0]):
        fs._die()
    return n


def _p_sendfile(out_fd, in_fd, offset, count, *a, **k):
    fs = _ACTIVE
    f = fs.simfiles.get(out_fd) if fs is not None else None
    if f is None and (fs is None or out_fd not in fs.fds):
        return _real["os.sendfile"](out_fd, in_fd, offset, count, *a, **k)
    # kernel-side copy into one of our files: a gated write of the bytes actually available
    if f is not None:
        f._flush_buffer()
    try:
        size = os.fstat(in_fd).st_size
        pos = offset if offset is not None else os.lseek(in_fd, 0, 1)
        avail = max(0, min(count, size - pos))
    except OSError:
        avail = count
    if avail == 0:
        return _real["os.sendfile"](out_fd, in_fd, offset, count, *a, **k)
    path = f.path if f is not None else fs.fds[out_fd]
    allowed = fs.gate("write", path, avail)
    n = _real["os.sendfile"](out_fd, in_fd, offset, allowed, *a, **k) if allowed else 0
    if allowed < avail or (fs.crash_at is not None and len(fs.ops) - 1 == fs.crash_at[0]):
        fs._die()
    return n


def _p_copy_file_range(src, dst, count, offset_src=None, offset_dst=None):
    fs = _ACTIVE
    if fs is None or (dst not in fs.simfiles and dst not in fs.fds):
        return _real["os.copy_file_range"](src, dst, count, offset_src, offset_dst)
    # not simulated: make shutil fall back to sendfile / read+write, which are
    raise OSError(38, "copy_file_range not available under SimFS")


def _p_os_close(fd):
    fs = _ACTIVE
    if fs is not None:
        fs.fds.pop(fd, None)
    return _real["os.close"](fd)


def _p_fdopen(fd, *args, **kwargs):
    return _p_open(fd, *args, **kwargs)


def _wrap1(name, kind):
    real = _real[name]

    def f(path, *a, **k):
        fs = _ACTIVE
        if fs is not None and not isinstance(path, int) and fs.owns(path):
            fs.gate(kind, path)
            try:
                return real(path, *a, **k)
            finally:
                fs.post()
        return real(path, *a, **k)

    f.__name__ = name.replace(".", "_")
    return f


def _wrap2(name, kind):
    real = _real[name]

    def f(src, dst, *a, **k):
        fs = _ACTIVE
        if fs is not None and (fs.owns(src) or fs.owns(dst)):
            fs.gate(kind, dst)
            try:
                return real(src, dst, *a, **k)
            finally:
                fs.post()
        return real(src, dst, *a, **k)

    f.__name__ = name.replace(".", "_")
    return f


def _p_makedirs(name, mode=0o777, exist_ok=False):
    # re-implemented on top of (patched) os.mkdir so each level is an op
    head, tail = os.path.split(name)
    if not tail:
        head, tail = os.path.split(head)
    if head and tail and not os.path.exists(head):
        try:
            _p_makedirs(head, exist_ok=exist_ok)
        except FileExistsError:
            pass
    try:
        os.mkdir(name, mode)
    except OSError:
        if not exist_ok or not os.path.isdir(name):
            raise


def _p_ftruncate(fd, length):
    fs = _ACTIVE
    if fs is not None and fd in fs.fds:
        fs.gate("ftruncate", fs.fds[fd])
        try:
            return _real["os.ftruncate"](fd, length)
        finally:
            fs.post()
    return _real["os.ftruncate"](fd, length)


def _p_fsync(fd):
    fs = _ACTIVE
    if fs is not None and fd in fs.fds:
        fs.gate("fsync", fs.fds[fd])
        fs.post()
        return None
    return _real["os.fsync"](fd)


def install():
    """Interpose once per interpreter; inert unless a SimFS is active."""
    global _INSTALLED
    if _INSTALLED:
        return
    builtins.open = _p_open
    io.open = _p_open
    os.open = _p_os_open
    os.write = _p_os_write
    os.close = _p_os_close
    os.fdopen = _p_fdopen
    if _real["os.sendfile"] is not None:
        os.sendfile = _p_sendfile
    if _real["os.copy_file_range"] is not None:
        os.copy_file_range = _p_copy_file_range
    os.mkdir = _wrap1("os.mkdir", "mkdir")
    os.makedirs = _p_makedirs
    os.unlink = _wrap1("os.unlink", "unlink")
    os.remove = _wrap1("os.remove", "unlink")
    os.rmdir = _wrap1("os.rmdir", "rmdir")
    os.truncate = _wrap1("os.truncate", "truncate")
    os.ftruncate = _p_ftruncate
    os.fsync = _p_fsync
    os.replace = _wrap2("os.replace", "replace")
    os.rename = _wrap2("os.rename", "rename")
    os.link = _wrap2("os.link", "link")
    os.symlink = _wrap2("os.symlink", "symlink")
    _INSTALLED = True


class activate:
    def __init__(self, fs):
        self.fs = fs

    def __enter__(self):
        global _ACTIVE
        self._prev = _ACTIVE
        _ACTIVE = self.fs
        return self.fs

    def __exit__(self, *exc):
        global _ACTIVE
        _ACTIVE = self._prev
        return False


# -- scratch directories and snapshots (real, un-interposed) -----------------


def scratch_base():
    for cand in (os.environ.get("VERIF_SCRATCH"), "/dev/shm", os.environ.get("TMPDIR"), "/tmp"):
        if cand and os.path.isdir(cand) and os.access(cand, os.W_OK):
            return cand
    return "."


def snapshot(root):
    """dict relpath -> bytes (files) / None (directories)."""
    out = {}
    for d, dirs, files in os.walk(root):
        dirs.sort()
        r = os.path.relpath(d, root)
        if r != ".":
            out[r] = None
        for f in sorted(files):
            p = os.path.join(d, f)
            with _real["io.open"](p, "rb") as fh:
                out[os.path.normpath(os.path.join(r, f))] = fh.read()
    return out


def restore(root, snap):
    if os.path.isdir(root):
        shutil.rmtree(root)
    _real["os.makedirs"](root, exist_ok=True)
    for rel, data in sorted(snap.items()):
        p = os.path.join(root, rel)
        if data is None:
            _real["os.makedirs"](p, exist_ok=True)
        else:
            _real["os.makedirs"](os.path.dirname(p), exist_ok=True)
            with _real["io.open"](p, "wb") as fh:
                fh.write(data)
