"""Small third-party entropy seams the simulator has to own for replay."""

from . import prng

_STATE = {"seed": None, "n": 0, "installed": False}


def set_entropy(seed):
    """Seed for everything that would otherwise read OS entropy (None: off)."""
    _STATE["seed"] = seed
    _STATE["n"] = 0


def _next_seed():
    _STATE["n"] += 1
    return prng.H(_STATE["seed"], "entropy", _STATE["n"]) % (2 ** 32)


def install():
    """cmaes.CMA / SepCMA(seed=None) draw their RandomState from OS entropy
    (cotengra's 'auto' presets use cmaes without a seed)."""
    if _STATE["installed"]:
        return
    _STATE["installed"] = True
    try:
        import cmaes
    except Exception:
        return
    for cls in (cmaes.CMA, cmaes.SepCMA):
        orig = cls.__init__

        def init(self, *a, __orig=orig, **k):
            if k.get("seed") is None and _STATE["seed"] is not None:
                k["seed"] = _next_seed()
            return __orig(self, *a, **k)

        cls.__init__ = init


# -- process-global state of the code under test ---------------------------------
# Runs execute back to back in one worker process; for a run to be a pure function of its case (and so replayable
# in a fresh interpreter) no module- or class-level cache of cotengra may carry over.  Every container that was
# EMPTY when first seen (caches; registries are filled at import and left alone) is emptied again before each run,
# and every functools cache is cleared.

_SEEN_MODULES = set()
_TRACKED = {"containers": [], "lru": []}


def _scan_namespace(ns, owner):
    import collections

    for k, v in list(ns.items()):
        if k.startswith("__"):
            continue
        if isinstance(v, (dict, list, set, collections.deque)) and type(v).__module__ in ("builtins", "collections"):
            if len(v) == 0:
                _TRACKED["containers"].append(v)
        elif callable(getattr(v, "cache_clear", None)):
            _TRACKED["lru"].append(v)


def hermetic_reset():
    import sys

    for name, mod in list(sys.modules.items()):
        if mod is None or not (name == "cotengra" or name.startswith("cotengra.")) or name in _SEEN_MODULES:
            continue
        _SEEN_MODULES.add(name)
        ns = vars(mod)
        _scan_namespace(ns, name)
        for v in list(ns.values()):
            if isinstance(v, type) and getattr(v, "__module__", None) == name:
                _scan_namespace(vars(v), v)
    for c in _TRACKED["containers"]:
        c.clear()
    for f in _TRACKED["lru"]:
        try:
            f.cache_clear()
        except Exception:
            pass
