"""Small third-party entropy seams the simulator has to own for replay."""

from . import prng

_STATE = {"seed": None, "n": 0, "installed": False}


def set_entropy(seed):
    """Seed for everything that would otherwise read OS entropy (None: off)."""
    _STATE["seed"] = seed
    _STATE["n"] = 0


def _next_seed():
    _STATE["n"] += 1
    return prng.H(_STATE["seed"], "entropy", _STATE["n"]) % (2 ** 32)


def install():
    """cmaes.CMA / SepCMA(seed=None) draw their RandomState from OS entropy
    (cotengra's 'auto' presets use cmaes without a seed)."""
    if _STATE["installed"]:
        return
    _STATE["installed"] = True
    try:
        import cmaes
    except Exception:
        return
    for cls in (cmaes.CMA, cmaes.SepCMA):
        orig = cls.__init__

        def init(self, *a, __orig=orig, **k):
            if k.get("seed") is None and _STATE["seed"] is not None:
                k["seed"] = _next_seed()
            return __orig(self, *a, **k)

        cls.__init__ = init
