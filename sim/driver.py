"""Generic check driver: seeded batches on a fork pool, violation minimisation,
fresh-interpreter replay verification, known-finding classification, the
determinism self-test and the evidence file.  See DESIGN.md §3.1, §3.6-§3.9, §5.

Exit codes: 0 ok (KNOWN-FINDING lines allowed) · 1 VIOLATION · 2 HARNESS-ERROR.
"""

import argparse
import collections
import faulthandler
import importlib
import json
import os
import subprocess
import sys
import traceback

VERIF_DIR = os.path.dirname(os.path.dirname(os.path.abspath(__file__)))
# evidence and replay files go under VERIF_OUT when set (mutation drills on scratch copies must not
# overwrite the evidence of the real tree)
OUT_DIR = os.environ.get("VERIF_OUT") or VERIF_DIR

ENGINE_OF = {
    "C02": "engines.hist",
    "C04": "engines.hist",
    "C08": "engines.hyper",
    "C13": "engines.cache",
    "C14": "engines.store",
    "C15": "engines.store",
    "C16": "engines.threads",
    "C17": "engines.detenv",
}

DEFAULT_SEED = {"quick": 20261003, "thorough": 77012026}


def _reexec_if_needed():
    """Pin PYTHONHASHSEED (replay determinism) and single-threaded BLAS."""
    want = os.environ.get("VERIF_HASHSEED", "0")
    if os.environ.get("_VERIF_REEXEC") == "1" and os.environ.get("PYTHONHASHSEED") == want:
        return
    env = dict(os.environ)
    env["PYTHONHASHSEED"] = want
    env["_VERIF_REEXEC"] = "1"
    for k in ("OMP_NUM_THREADS", "OPENBLAS_NUM_THREADS", "MKL_NUM_THREADS"):
        env[k] = "1"
    env.pop("COTENGRA_NUM_WORKERS", None)
    env["PYTHONWARNINGS"] = "ignore"
    os.execve(sys.executable, [sys.executable, "-X", "faulthandler"] + sys.argv, env)


def bootstrap():
    """Install the clock seam and make ``cotengra`` resolve to $VERIF_REPO."""
    if VERIF_DIR not in sys.path:
        sys.path.insert(0, VERIF_DIR)
    from sim import clock

    clock.install()
    repo = os.path.realpath(os.environ.get("VERIF_REPO", "/repo"))
    sys.path.insert(0, repo)
    import warnings

    warnings.simplefilter("ignore")
    import cotengra

    got = os.path.realpath(os.path.dirname(os.path.dirname(cotengra.__file__)))
    if got != repo:
        print(f"HARNESS-ERROR cotengra imported from {got}, expected {repo}")
        sys.exit(2)
    return repo


# ---------------------------------------------------------------------------
# worker side


def _run_indices(engine_name, prop, tier, seed, indices, want_digest):
    """Run the cases with the given run indices; executed in a fork worker."""
    from sim import prng

    eng = importlib.import_module(engine_name)
    out = {
        "n": 0,
        "counters": collections.Counter(),
        "faults": collections.Counter(),
        "states": set(),
        "digests": {},
        "violations": [],
        "sample": None,
        "samples_more": [],
        "sim_seconds": 0.0,
        "errors": [],
        "nontrivial": 0,
    }
    per_class = collections.Counter()
    for idx in indices:
        rs = prng.run_seed(seed, prop, idx)
        try:
            faulthandler.dump_traceback_later(eng.CASE_TIMEOUT, exit=True)
            case = eng.gen_case(prop, rs, tier)
            res = eng.run_case(prop, case)
        except BaseException as e:  # harness bug, not a verdict
            out["errors"].append(
                f"index {idx} seed {rs}: {type(e).__name__}: {e}\n" + traceback.format_exc(limit=8)
            )
            continue
        finally:
            faulthandler.cancel_dump_traceback_later()
        out["n"] += 1
        out["counters"].update(res.get("counters", {}))
        out["faults"].update(res.get("faults", {}))
        out["states"].update(res.get("states", ()))
        out["sim_seconds"] += res.get("sim_seconds", 0.0)
        out["nontrivial"] += 1 if res.get("nontrivial", True) else 0
        if idx in want_digest:
            out["digests"][idx] = res["digest"]
        if res.get("sample") is not None:
            smp = res["sample"]
            if out["sample"] is None:
                out["sample"] = smp
            if res.get("violations") or (isinstance(smp, dict) and smp.get("interesting")):
                if len(out["samples_more"]) < 2:
                    out["samples_more"].append(smp)
        for v in res.get("violations", ()):
            cls = eng.violation_class(v)
            per_class[cls] += 1
            if per_class[cls] <= 3:
                out["violations"].append((idx, case, v))
            else:
                out["violations"].append((idx, None, {"oracle": v["oracle"], "sig": v.get("sig", {}), "detail": ""}))
    return out


def _digest_only(engine_name, prop, tier, seed, indices):
    from sim import prng

    eng = importlib.import_module(engine_name)
    d = {}
    for idx in indices:
        rs = prng.run_seed(seed, prop, idx)
        case = eng.gen_case(prop, rs, tier)
        res = eng.run_case(prop, case)
        d[str(idx)] = res["digest"]
    return d


# ---------------------------------------------------------------------------
# known findings


def load_known():
    p = os.path.join(VERIF_DIR, "known_findings.json")
    try:
        with open(p) as f:
            data = json.load(f)
    except FileNotFoundError:
        return []
    return [e for e in data.get("findings", []) if e.get("status", "open") == "open"]


def match_known(prop, v, known):
    sig = dict(v.get("sig", {}))
    sig.setdefault("oracle", v.get("oracle"))
    for e in known:
        if e["property"] != prop:
            continue
        if all(sig.get(k) == val for k, val in e["match"].items()):
            return e
    return None


# ---------------------------------------------------------------------------
# parent side


def _chunks(lst, n):
    for i in range(0, len(lst), n):
        yield lst[i:i + n]


def run_check(prop, tier, seed, workers, budget_scale=1.0, runs_override=None):
    import time as _t
    from concurrent.futures import ProcessPoolExecutor
    from concurrent.futures.process import BrokenProcessPool
    import multiprocessing as mp
    from sim import clock, trace

    engine_name = ENGINE_OF[prop]
    eng = importlib.import_module(engine_name)
    plan = eng.PLAN[prop][tier]
    runs = int(runs_override or plan["runs"])
    wall_cap = plan["wall_cap"] * budget_scale
    chunk = plan.get("chunk", 8)
    n_self = plan.get("selftest", 6)

    t0 = clock.real_monotonic()
    all_indices = list(range(runs))
    # indices whose digests are kept for the determinism self-test
    step = max(1, runs // max(1, n_self))
    self_idx = set(all_indices[::step][:n_self])

    agg = {
        "n": 0, "counters": collections.Counter(), "faults": collections.Counter(),
        "states": set(), "digests": {}, "violations": [], "sample": None, "samples_more": [],
        "sim_seconds": 0.0, "errors": [], "nontrivial": 0,
    }
    stopped_early = False
    ctx = mp.get_context("fork")
    pending = list(_chunks(all_indices, chunk))
    try:
        with ProcessPoolExecutor(max_workers=workers, mp_context=ctx) as ex:
            futs = []
            it = iter(pending)
            inflight = collections.deque()

            def feed():
                while len(inflight) < workers * 2:
                    try:
                        c = next(it)
                    except StopIteration:
                        return False
                    inflight.append(ex.submit(_run_indices, engine_name, prop, tier, seed, c, self_idx))
                return True

            more = feed()
            while inflight:
                f = inflight.popleft()
                try:
                    r = f.result(timeout=eng.CASE_TIMEOUT * chunk + 60)
                except BrokenProcessPool:
                    raise
                for k in ("n", "sim_seconds", "nontrivial"):
                    agg[k] += r[k]
                agg["counters"].update(r["counters"])
                agg["faults"].update(r["faults"])
                agg["states"].update(r["states"])
                agg["digests"].update(r["digests"])
                agg["violations"].extend(r["violations"])
                agg["errors"].extend(r["errors"])
                if agg["sample"] is None:
                    agg["sample"] = r["sample"]
                for sm in r.get("samples_more", []):
                    if len(agg["samples_more"]) < 3:
                        agg["samples_more"].append(sm)
                if clock.real_monotonic() - t0 > wall_cap:
                    stopped_early = True
                    for g in inflight:
                        g.cancel()
                    # drain those already running
                    for g in list(inflight):
                        if not g.cancelled():
                            try:
                                r = g.result(timeout=eng.CASE_TIMEOUT * chunk + 60)
                            except Exception:
                                continue
                            for k in ("n", "sim_seconds", "nontrivial"):
                                agg[k] += r[k]
                            agg["counters"].update(r["counters"])
                            agg["faults"].update(r["faults"])
                            agg["states"].update(r["states"])
                            agg["digests"].update(r["digests"])
                            agg["violations"].extend(r["violations"])
                            agg["errors"].extend(r["errors"])
                    inflight.clear()
                    break
                if more:
                    more = feed()
    except BrokenProcessPool as e:
        print(f"HARNESS-ERROR worker died or timed out: {e}")
        return 2
    except Exception as e:
        print(f"HARNESS-ERROR {type(e).__name__}: {e}")
        traceback.print_exc()
        return 2

    if agg["errors"]:
        print("HARNESS-ERROR engine raised outside its oracle:")
        for e in agg["errors"][:3]:
            print(e)
        return 2

    # ---- determinism self-test (fresh interpreter, different worker count) --
    selftest = {"checked": 0, "mismatch": [], "hashseed_variation": "not-run"}
    st_idx = sorted(i for i in self_idx if i in agg["digests"])
    if st_idx and not os.environ.get("VERIF_NO_SELFTEST"):
        for hs, fatal in (("0", True), ("1", False)):
            env = dict(os.environ)
            env["VERIF_HASHSEED"] = hs
            env.pop("_VERIF_REEXEC", None)
            cmd = [sys.executable, os.path.join(VERIF_DIR, "check.py"), prop, "--tier", tier,
                   "--seed", str(seed), "--digest-only", ",".join(map(str, st_idx))]
            try:
                p = subprocess.run(cmd, env=env, capture_output=True, text=True,
                                   timeout=eng.CASE_TIMEOUT * len(st_idx) + 120)
                line = [l for l in p.stdout.splitlines() if l.startswith("DIGESTS ")]
                got = json.loads(line[-1][8:]) if line else None
            except Exception as e:
                got = None
                p = None
            if got is None:
                if fatal:
                    print("HARNESS-ERROR determinism self-test subprocess failed")
                    if p is not None:
                        print(p.stdout[-2000:], p.stderr[-2000:])
                    return 2
                selftest["hashseed_variation"] = "subprocess-failed"
                continue
            bad = [i for i in st_idx if got.get(str(i)) != agg["digests"][i]]
            if fatal:
                selftest["checked"] = len(st_idx)
                if bad:
                    print(f"HARNESS-ERROR determinism self-test: digests differ for run indices {bad} "
                          f"(same PYTHONHASHSEED, fresh interpreter)")
                    return 2
            else:
                selftest["hashseed_variation"] = (
                    "identical digests under PYTHONHASHSEED=1" if not bad
                    else f"digests differ under PYTHONHASHSEED=1 for indices {bad} (cotengra-internal hash-order dependence; see C17)"
                )

    # ---- violations: classify, minimise, verify replay ---------------------
    known = load_known()
    by_class = collections.OrderedDict()
    for idx, case, v in agg["violations"]:
        cls = eng.violation_class(v)
        by_class.setdefault(cls, []).append((idx, case, v))

    exit_code = 0
    known_hit = collections.Counter()
    reported = []
    for cls, items in by_class.items():
        # all raw members of this class known?
        unknown_items = [(i, c, v) for (i, c, v) in items if match_known(prop, v, known) is None]
        for (i, c, v) in items:
            e = match_known(prop, v, known)
            if e is not None:
                known_hit[e["id"]] += 1
        if not unknown_items:
            continue
        # minimise the first unknown item that still carries its case
        cand = [(i, c, v) for (i, c, v) in unknown_items if c is not None]
        if not cand:
            cand = [(i, c, v) for (i, c, v) in items if c is not None]
        idx, case, v = cand[0]
        try:
            small, v_small = eng.minimise(prop, case, v)
        except Exception as e:
            print(f"HARNESS-ERROR minimiser failed: {type(e).__name__}: {e}")
            traceback.print_exc()
            return 2
        e = match_known(prop, v_small, known)
        if e is not None:
            known_hit[e["id"]] += len(unknown_items)
            continue
        path = os.path.join(OUT_DIR, "replays", f"{prop}-{seed}-{idx}.json")
        trace.write_replay(path, {
            "property": prop, "engine": engine_name, "tier": tier, "seed": seed,
            "index": idx, "case": small, "violation": v_small,
            "class": list(cls) if isinstance(cls, tuple) else cls,
        })
        env = dict(os.environ)
        env.pop("_VERIF_REEXEC", None)
        p = subprocess.run([sys.executable, os.path.join(VERIF_DIR, "check.py"), prop, "--replay", path],
                           env=env, capture_output=True, text=True, timeout=eng.CASE_TIMEOUT + 120)
        if p.returncode != 1 or "VIOLATION" not in p.stdout:
            print(f"HARNESS-ERROR minimised trace {path} does not replay in a fresh interpreter "
                  f"(exit {p.returncode})")
            print(p.stdout[-1500:], p.stderr[-1500:])
            return 2
        print(f"VIOLATION property={prop} replay={path}")
        print(f"  oracle={v_small['oracle']} sig={json.dumps(trace.canon(v_small.get('sig', {})), sort_keys=True)}")
        print(f"  detail: {str(v_small.get('detail', ''))[:600]}")
        print(f"  occurrences in this batch: {len(items)} (first at run index {idx})")
        reported.append(path)
        exit_code = 1

    for e in known:
        if e["property"] == prop and known_hit.get(e["id"]):
            print(f"KNOWN-FINDING: property={prop} {e['what']} [{e['id']}, hit {known_hit[e['id']]}x]")

    wall = clock.real_monotonic() - t0
    # ---- evidence -------------------------------------------------------------
    probes_zero = [k for k in getattr(eng, "EXPECTED_PROBES", {}).get(prop, []) if not agg["counters"].get(k) and not agg["faults"].get(k)]
    ev = {
        "property_id": prop,
        "tier": tier,
        "seed": seed,
        "level": eng.LEVEL[prop],
        "wall_s": round(wall, 2),
        "violations": len(reported),
        "coverage": {
            "evaluations": agg["n"],
            "distinct_nontrivial": len(agg["states"]),
            "rule": eng.RULE[prop],
            "samples": ([agg["sample"]] if agg["sample"] is not None else []) + [x for x in agg["samples_more"] if x is not agg["sample"]][:3],
            "exhaustive": False,
            "runs_planned": runs,
            "stopped_early_on_wall_cap": stopped_early,
            "nontrivial_runs": agg["nontrivial"],
            "runs_per_hour": int(agg["n"] / max(wall, 1e-9) * 3600),
            "seeds": f"run_seed = H(VERIF_SEED={seed}, {prop}, i) for i in 0..{runs - 1}",
            "simulated_seconds": round(agg["sim_seconds"], 3),
            "faults_fired": dict(sorted(agg["faults"].items())),
            "ops_and_probes": dict(sorted(agg["counters"].items())),
            "probes_at_zero": probes_zero,
            "components": eng.COMPONENTS,
            "determinism_selftest": selftest,
            "known_findings_hit": dict(known_hit),
            "raw_violating_runs": len({i for i, _, _ in agg["violations"]}),
        },
        "assumptions": eng.ASSUMPTIONS[prop],
    }
    extra = getattr(eng, "evidence_extra", None)
    if extra is not None:
        ev["coverage"].update(extra(prop, agg))
    os.makedirs(os.path.join(OUT_DIR, "evidence"), exist_ok=True)
    evp = os.path.join(OUT_DIR, "evidence", f"{prop}.json")
    with open(evp + ".tmp", "w") as f:
        json.dump(trace.canon(ev), f, indent=1, sort_keys=True)
    os.replace(evp + ".tmp", evp)
    for k in probes_zero:
        print(f"WARNING probe at zero: {k}")
    print(f"{prop} {tier}: {agg['n']} runs, {len(agg['states'])} distinct states, "
          f"{len({i for i, _, _ in agg['violations']})} violating runs, "
          f"{len(reported)} reported, wall {wall:.1f}s -> exit {exit_code}")
    return exit_code


def run_replay(prop, path):
    from sim import trace

    eng = importlib.import_module(ENGINE_OF[prop])
    rp = trace.read_replay(path)
    case = rp["case"]
    faulthandler.dump_traceback_later(eng.CASE_TIMEOUT, exit=True)
    res = eng.run_case(prop, case)
    faulthandler.cancel_dump_traceback_later()
    want = rp.get("class")
    hit = None
    for v in res.get("violations", ()):
        cls = eng.violation_class(v)
        cls_l = list(cls) if isinstance(cls, tuple) else cls
        if want is None or trace.canon(cls_l) == want:
            hit = v
            break
    if hit is None and res.get("violations"):
        hit = res["violations"][0]
        print("note: replay violates the property, but with a different class than recorded")
    if hit is not None:
        print(f"VIOLATION property={prop} replay={path}")
        print(f"  oracle={hit['oracle']} sig={json.dumps(trace.canon(hit.get('sig', {})), sort_keys=True)}")
        print(f"  detail: {str(hit.get('detail', ''))[:2000]}")
        print(f"  digest={res['digest']}")
        return 1
    print(f"replay {path}: no violation reproduced (digest {res['digest']})")
    return 0


def main():
    ap = argparse.ArgumentParser()
    ap.add_argument("prop")
    ap.add_argument("--tier", default=os.environ.get("VERIF_TIER", "quick"), choices=["quick", "thorough"])
    ap.add_argument("--seed", type=int, default=None)
    ap.add_argument("--replay", default=None)
    ap.add_argument("--workers", type=int, default=int(os.environ.get("VERIF_WORKERS", "16")))
    ap.add_argument("--digest-only", default=None)
    ap.add_argument("--runs", type=int, default=None)
    ap.add_argument("--budget-scale", type=float, default=float(os.environ.get("VERIF_BUDGET_SCALE", "1")))
    args = ap.parse_args()
    if args.prop not in ENGINE_OF:
        print(f"HARNESS-ERROR unknown or not-applicable property {args.prop}")
        return 2
    _reexec_if_needed()
    bootstrap()
    seed = args.seed
    if seed is None:
        seed = int(os.environ.get("VERIF_SEED", DEFAULT_SEED[args.tier]))
    try:
        if args.replay:
            return run_replay(args.prop, args.replay)
        if args.digest_only:
            idx = [int(x) for x in args.digest_only.split(",") if x]
            d = _digest_only(ENGINE_OF[args.prop], args.prop, args.tier, seed, idx)
            print("DIGESTS " + json.dumps(d))
            return 0
        return run_check(args.prop, args.tier, seed, args.workers, args.budget_scale, args.runs)
    except SystemExit:
        raise
    except BaseException as e:
        print(f"HARNESS-ERROR {type(e).__name__}: {e}")
        traceback.print_exc()
        return 2
