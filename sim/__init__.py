"""Deterministic-simulation kernel for the cotengra checks (see DESIGN.md §3)."""
