"""SimPool: an in-process executor driven by the virtual clock (DESIGN §3.3).

cotengra accepts any object with ``submit`` and ``_max_workers`` as
``parallel=``.  Tasks run *for real*, in this process, at their simulated
completion instant, so execution order == completion order and the schedule is
a pure function of the ``sched`` PRNG stream (or of an explicit duration list
when replaying).
"""

import pickle
from concurrent.futures import CancelledError

from . import clock as _clock


class SimFuture:
    __slots__ = (
        "pool", "idx", "_fn", "_args", "_kwargs", "_blob", "state",
        "_result", "_exc", "finish_time", "start_time", "worker",
    )

    def __init__(self, pool, idx):
        self.pool = pool
        self.idx = idx
        self.state = "queued"  # queued | running | done | cancelled
        self._result = None
        self._exc = None
        self.finish_time = None
        self.start_time = None
        self.worker = None

    # -- concurrent.futures API -------------------------------------------
    def done(self):
        self.pool.stats["done_polls"] += 1
        if self.state == "done":
            self.pool._unobserved.discard(self.idx)
        return self.state in ("done", "cancelled")

    def cancelled(self):
        return self.state == "cancelled"

    def running(self):
        return self.state == "running"

    def cancel(self):
        if self.state == "queued":
            self.state = "cancelled"
            self.pool._queue.remove(self)
            self.pool.stats["cancelled"] += 1
            self.pool.log.append(("cancel", self.idx))
            return True
        if self.state == "cancelled":
            return True
        self.pool.stats["cancel_refused"] += 1
        return False

    def result(self, timeout=None):
        if self.state == "cancelled":
            raise CancelledError()
        guard = 0
        while self.state != "done":
            guard += 1
            if guard > 1_000_000 or not self.pool.clock.advance_to_next_event():
                raise RuntimeError("SimPool deadlock: future can never finish")
            if self.state == "cancelled":
                raise CancelledError()
        if self._exc is not None:
            raise self._exc
        if self.pool.mode == "process":
            return pickle.loads(self._result)
        return self._result

    def exception(self, timeout=None):
        try:
            self.result()
        except CancelledError:
            raise
        except BaseException as e:  # noqa
            return e
        return None

    def add_done_callback(self, fn):  # pragma: no cover - not used by cotengra
        raise NotImplementedError


class SimPool:
    """Deterministic executor.

    Parameters
    ----------
    clock : VirtualClock
    workers : int
    mode : 'thread' | 'process'
        'process' pickles (fn, args, kwargs) at submit and the result at
        completion, like a process pool; 'thread' shares objects.
    rng : random.Random, optional
        the ``sched`` stream: durations are log-uniform over three decades.
    durations : list[float], optional
        explicit duration per submitted task (replay / minimised traces). When
        exhausted falls back to ``rng`` (or 1.0).
    speed : list[float], optional
        per-worker slowness factors ("slow node").
    """

    def __init__(self, clock, workers=2, mode="thread", rng=None,
                 durations=None, speed=None, grid=None):
        self.clock = clock
        self._max_workers = int(workers)
        self.mode = mode
        self.rng = rng
        self.durations = list(durations) if durations is not None else None
        self.speed = list(speed) if speed else [1.0] * self._max_workers
        # grid: durations are multiples of this quantum, so that several
        # tasks finish at the same simulated instant (ties)
        self.grid = grid
        self._free = list(range(self._max_workers))
        self._queue = []
        self._n = 0
        self.completion_order = []
        self.used_durations = []
        self.log = []
        self.stats = {
            "submitted": 0, "completed": 0, "cancelled": 0,
            "cancel_refused": 0, "out_of_order": 0, "max_inflight": 0,
            "done_polls": 0, "raised": 0, "batched": 0,
        }
        self._unobserved = set()

    # -- API seen by cotengra ----------------------------------------------
    def submit(self, fn, *args, **kwargs):
        fut = SimFuture(self, self._n)
        self._n += 1
        self.stats["submitted"] += 1
        if self.mode == "process":
            fut._blob = pickle.dumps((fn, args, kwargs))
            fut._fn = fut._args = fut._kwargs = None
        else:
            fut._fn, fut._args, fut._kwargs = fn, args, kwargs
            fut._blob = None
        self._queue.append(fut)
        self.log.append(("submit", fut.idx))
        self._dispatch()
        return fut

    def shutdown(self, wait=True):
        pass

    # -- internals -----------------------------------------------------------
    def _draw_duration(self, idx):
        if self.durations is not None and idx < len(self.durations):
            d = float(self.durations[idx])
        elif self.rng is not None and self.grid:
            d = self.grid * self.rng.randint(0, 3)
        elif self.rng is not None:
            d = 10.0 ** self.rng.uniform(-3.0, 0.0)
        else:
            d = 1.0
        return d

    def _dispatch(self):
        while self._free and self._queue:
            fut = self._queue.pop(0)
            w = self._free.pop(0)
            fut.worker = w
            fut.state = "running"
            fut.start_time = self.clock.now
            d = self._draw_duration(fut.idx)
            self.used_durations.append(d)
            d *= self.speed[w % len(self.speed)]
            fut.finish_time = self.clock.now + d
            self.clock.at(fut.finish_time, lambda f=fut: self._complete(f))
            inflight = self._max_workers - len(self._free)
            if inflight > self.stats["max_inflight"]:
                self.stats["max_inflight"] = inflight

    def _complete(self, fut):
        try:
            if self.mode == "process":
                fn, args, kwargs = pickle.loads(fut._blob)
                fut._blob = None
                res = fn(*args, **kwargs)
                fut._result = pickle.dumps(res)
            else:
                fut._result = fut._fn(*fut._args, **fut._kwargs)
        except Exception as e:  # the task's own failure travels in the future
            fut._exc = e
            self.stats["raised"] += 1
        fut.state = "done"
        if self._unobserved:
            # another finished task has not been seen by the poller yet
            self.stats["batched"] += 1
        self._unobserved.add(fut.idx)
        self.stats["completed"] += 1
        if self.completion_order and fut.idx < max(self.completion_order):
            self.stats["out_of_order"] += 1
        self.completion_order.append(fut.idx)
        self.log.append(("complete", fut.idx, fut.worker))
        self._free.append(fut.worker)
        self._free.sort()
        self._dispatch()
