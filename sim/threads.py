"""Controlled scheduling of real caller threads (DESIGN §3.4).

Real ``threading.Thread``s are serialised by a baton: exactly one simulated
thread runs at any time.  ``sys.settrace`` line events inside a whitelisted
set of functions are the pre-emption points; at each one a *chooser* (seeded
random walk, PCT, or a recorded schedule) decides who runs next.  The choice
sequence is the replay file.
"""

import os
import sys
import threading as _real_threading

_real_get_ident = _real_threading.get_ident


class HarnessError(RuntimeError):
    pass


class SimDeadlock(RuntimeError):
    """Every simulated thread is blocked on a (simulated) lock."""


_ACTIVE_SCHED = [None]


class SimLock:
    """Lock / RLock handed out by the shim: contention yields the baton
    instead of blocking the (only running) real thread."""

    def __init__(self, reentrant):
        self.reentrant = reentrant
        self.owner = None
        self.count = 0
        self.waiters = []

    def _me(self):
        sched = _ACTIVE_SCHED[0]
        if sched is None:
            return None, None
        return sched, sched.index_of_current()

    def acquire(self, blocking=True, timeout=-1):
        sched, me = self._me()
        while True:
            if self.owner is None or (self.reentrant and self.owner == me and me is not None):
                self.owner = me
                self.count += 1
                return True
            if sched is None or me is None:
                # outside a simulated run there is only one thread: a contended non-reentrant lock is a self-deadlock
                raise SimDeadlock("lock re-acquired by the only thread")
            if not blocking:
                return False
            sched.lock_contentions += 1
            sched.block_on(me, self)

    def release(self):
        sched, me = self._me()
        if self.owner is None:
            raise RuntimeError("release unlocked lock")
        self.count -= 1
        if self.count <= 0:
            self.count = 0
            self.owner = None
            if self.waiters and sched is not None:
                sched.unblock(self.waiters.pop(0))

    def locked(self):
        return self.owner is not None

    __enter__ = acquire

    def __exit__(self, *exc):
        self.release()
        return False


class ThreadingShim:
    """Stands in for the ``threading`` module inside cotengra modules so that
    thread identities are simulator-assigned (and can be *reused* after a
    thread has exited, like OS thread ids are)."""

    def __init__(self):
        self._idents = {}  # real ident -> simulated ident

    def get_ident(self):
        return self._idents.get(_real_get_ident(), 1)

    def Lock(self):
        return SimLock(False)

    def RLock(self):
        return SimLock(True)

    def __getattr__(self, name):
        return getattr(_real_threading, name)


SHIM = ThreadingShim()
_REAL_LOCK_TYPES = (type(_real_threading.Lock()), type(_real_threading.RLock()))


def install_shim():
    """Every loaded cotengra module that holds the ``threading`` module (or took Lock / RLock / get_ident from it)
    gets the shim instead: a real lock held by a parked simulated thread would block the baton holder for good."""
    import sys

    import cotengra.presets  # noqa: F401
    import cotengra.reusable  # noqa: F401
    import cotengra.utils  # noqa: F401

    for name, m in list(sys.modules.items()):
        if m is None or not (name == "cotengra" or name.startswith("cotengra.")):
            continue
        d = getattr(m, "__dict__", {})
        if d.get("threading") is _real_threading:
            m.threading = SHIM
        if d.get("Lock") is _real_threading.Lock:
            m.Lock = SHIM.Lock
        if d.get("RLock") is _real_threading.RLock:
            m.RLock = SHIM.RLock
        if d.get("get_ident") is _real_threading.get_ident:
            m.get_ident = SHIM.get_ident
        # locks that already exist (made at import time, at module level or on module-level objects such as the preset
        # optimizers) are swapped for simulated ones too
        for k, v in list(d.items()):
            if isinstance(v, _REAL_LOCK_TYPES):
                setattr(m, k, SimLock(isinstance(v, _REAL_LOCK_TYPES[1])))
            elif getattr(type(v), "__module__", "").startswith("cotengra") and hasattr(v, "__dict__") and not isinstance(v, type):
                for k2, v2 in list(vars(v).items()):
                    if isinstance(v2, _REAL_LOCK_TYPES):
                        try:
                            setattr(v, k2, SimLock(isinstance(v2, _REAL_LOCK_TYPES[1])))
                        except Exception:
                            pass


# -- choosers -----------------------------------------------------------------


class WalkChooser:
    def __init__(self, rng, p):
        self.rng, self.p = rng, p

    def choose(self, cur, runnable, step):
        if cur is None or cur not in runnable:
            return runnable[self.rng.randrange(len(runnable))]
        if len(runnable) > 1 and self.rng.random() < self.p:
            others = [t for t in runnable if t != cur]
            return others[self.rng.randrange(len(others))]
        return cur


class PCTChooser:
    """Probabilistic concurrency testing: random priorities, d-1 priority
    change points spread over the estimated number of steps."""

    def __init__(self, rng, nthreads, depth, est_steps):
        pr = list(range(depth, depth + nthreads))
        rng.shuffle(pr)
        self.prio = dict(enumerate(pr))
        self.changes = {rng.randrange(1, max(2, est_steps)): depth - 1 - j for j in range(depth - 1)}

    def choose(self, cur, runnable, step):
        if cur is not None and step in self.changes:
            self.prio[cur] = self.changes[step]
        return max(runnable, key=lambda t: (self.prio.get(t, 0), -t))


class ReplayChooser:
    """Follow a recorded choice list where possible (tolerant of drift so
    that shortened schedules remain executable)."""

    def __init__(self, choices):
        self.choices = list(choices)
        self.k = 0
        self.drift = 0

    def choose(self, cur, runnable, step):
        want = self.choices[self.k] if self.k < len(self.choices) else None
        self.k += 1
        if want is not None and want in runnable:
            return want
        if want is not None:
            self.drift += 1
        if cur is not None and cur in runnable:
            return cur
        return runnable[0]


# -- scheduler -------------------------------------------------------------------


class Scheduler:
    def __init__(self, chooser, whitelist, wait_timeout=300.0, max_points=200000, max_yields=2_000_000):
        self.chooser = chooser
        self.whitelist = whitelist  # callable (basename, funcname) -> bool
        self.wait_timeout = wait_timeout
        self.max_points = max_points
        self.max_yields = max_yields  # bound on voluntary waits (polling loops): beyond it the run is declared stuck
        self.yields = 0
        self.trace = []
        self.points = 0
        self.switches = 0
        self.sig = []  # (from, to, function) at each context switch
        self._wl_cache = {}
        self.lock_contentions = 0
        self.deadlock = False
        self._real_to_index = {}

    def index_of_current(self):
        return self._real_to_index.get(_real_get_ident())

    def block_on(self, i, lock):
        """Thread i cannot take ``lock``: park it and run somebody else."""
        if self.deadlock:
            raise SimDeadlock("deadlock")
        self.state[i] = "blocked-lock"
        lock.waiters.append(i)
        r = self._runnable()
        if not r:
            self.deadlock = True
            self.state[i] = "runnable"
            lock.waiters.remove(i)
            raise SimDeadlock("all simulated threads are blocked on locks")
        nxt = self.chooser.choose(None, r, self.points)
        self.trace.append(nxt)
        self.switches += 1
        self.sig.append((i, nxt, "lock-wait"))
        self.sems[nxt].release()
        self._wait(i)
        if self.deadlock:
            raise SimDeadlock("all simulated threads are blocked on locks")

    def unblock(self, i):
        if self.state[i] == "blocked-lock":
            self.state[i] = "runnable"

    # baton ---------------------------------------------------------------------
    def _wait(self, i):
        if not self.sems[i].acquire(timeout=self.wait_timeout):
            raise HarnessError(f"thread {i} waited more than {self.wait_timeout}s for the baton")

    def _runnable(self):
        return [i for i, s in enumerate(self.state) if s == "runnable"]

    def _yield_point(self, i, where):
        self.points += 1
        if self.points > self.max_points:
            raise HarnessError("too many pre-emption points")
        r = self._runnable()
        nxt = self.chooser.choose(i, r, self.points)
        self.trace.append(nxt)
        if nxt != i:
            self.switches += 1
            self.sig.append((i, nxt, where))
            self.sems[nxt].release()
            self._wait(i)

    def _tracer(self, i):
        wl = self.whitelist
        cache = self._wl_cache
        sched = self

        def local(frame, event, arg):
            if event == "line":
                sched._yield_point(i, frame.f_code.co_name)
            return local

        def glob(frame, event, arg):
            code = frame.f_code
            ok = cache.get(code)
            if ok is None:
                ok = cache[code] = bool(wl(os.path.basename(code.co_filename), code.co_name, code.co_filename))
            return local if ok else None

        return glob

    def _thread_main(self, i, fn):
        self._wait(i)
        SHIM._idents[_real_get_ident()] = self.idents[i]
        self._real_to_index[_real_get_ident()] = i
        sys.settrace(self._tracer(i))
        try:
            fn()
        except BaseException as e:  # recorded, judged by the engine
            self.errors[i] = e
        finally:
            sys.settrace(None)
            SHIM._idents.pop(_real_get_ident(), None)
            self.state[i] = "done"
            for j, dep in enumerate(self.start_after):
                if dep == i and self.state[j] == "blocked":
                    self.state[j] = "runnable"
            self._real_to_index.pop(_real_get_ident(), None)
            r = self._runnable()
            if not r:
                stuck = [j for j, st in enumerate(self.state) if st == "blocked-lock"]
                if stuck:
                    # the threads still parked on locks can never run again: wake them to fail with SimDeadlock
                    self.deadlock = True
                    for j in stuck:
                        self.state[j] = "runnable"
                    r = self._runnable()
            if r:
                nxt = self.chooser.choose(None, r, self.points)
                self.trace.append(nxt)
                self.sems[nxt].release()
            else:
                self.main_sem.release()

    def run(self, fns, idents, start_after):
        """fns[i]() is thread i's body; idents[i] its simulated ident;
        start_after[i] = j means thread i becomes runnable only when j is done
        (None: runnable from the start)."""
        n = len(fns)
        self.sems = [_real_threading.Semaphore(0) for _ in range(n)]
        self.main_sem = _real_threading.Semaphore(0)
        self.state = ["runnable" if start_after[i] is None else "blocked" for i in range(n)]
        self.idents = list(idents)
        self.start_after = list(start_after)
        self.errors = [None] * n
        threads = [_real_threading.Thread(target=self._thread_main, args=(i, fns[i]), daemon=True, name=f"sim-{i}")
                   for i in range(n)]
        self._threads = threads
        _ACTIVE_SCHED[0] = self
        for t in threads:
            t.start()
        r = self._runnable()
        first = self.chooser.choose(None, r, 0)
        self.trace.append(first)
        self.sems[first].release()
        if not self.main_sem.acquire(timeout=self.wait_timeout * 2.5):
            raise HarnessError("scheduler: run did not finish (deadlock or a thread stuck outside the baton)")
        for t in list(self._threads):
            t.join(timeout=10)
            if t.is_alive():
                raise HarnessError("scheduler: thread did not exit")
        _ACTIVE_SCHED[0] = None
        for e in self.errors:
            if isinstance(e, HarnessError):
                raise e
        return self.errors


    # -- dynamic threads (pool tasks) and cooperative waiting -------------------
    def spawn(self, fn, ident=None):
        """Called by the running simulated thread: add a new simulated thread
        (runnable at once). Returns its index."""
        i = len(self.state)
        self.sems.append(_real_threading.Semaphore(0))
        self.state.append("runnable")
        self.idents.append(ident if ident is not None else 5000 + i)
        self.start_after.append(None)
        self.errors.append(None)
        t = _real_threading.Thread(target=self._thread_main, args=(i, fn), daemon=True, name=f"sim-{i}")
        self._threads.append(t)
        t.start()
        return i

    def yield_now(self, i):
        """Thread i has nothing to do for the moment (polling / sleeping):
        let somebody else run if anybody can."""
        self.yields += 1
        if self.yields > self.max_yields:
            raise SimDeadlock(f"no progress: {self.yields} polls/waits without the run finishing (livelock)")
        others = [t for t in self._runnable() if t != i]
        if not others:
            return False
        nxt = self.chooser.choose(None, others, self.points)
        self.trace.append(nxt)
        self.switches += 1
        self.sig.append((i, nxt, "wait"))
        self.sems[nxt].release()
        self._wait(i)
        return True

    def wait_until(self, pred):
        i = self.index_of_current()
        guard = 0
        while not pred():
            guard += 1
            if guard > 1_000_000 or not self.yield_now(i):
                raise SimDeadlock("waiting for something nobody can provide")


class PreemptiveFuture:
    def __init__(self, pool, idx):
        self.pool, self.idx = pool, idx
        self.state = "queued"
        self._res = None
        self._exc = None

    def done(self):
        return self.state in ("done", "cancelled")

    def cancelled(self):
        return self.state == "cancelled"

    def cancel(self):
        if self.state == "queued":
            self.state = "cancelled"
            self.pool._queue = [(f, t) for (f, t) in self.pool._queue if f is not self]
            self.pool.stats["cancelled"] += 1
            return True
        return self.state == "cancelled"

    def result(self, timeout=None):
        from concurrent.futures import CancelledError

        if self.state == "cancelled":
            raise CancelledError()
        if self.state != "done":
            self.pool.sched.wait_until(lambda: self.state in ("done", "cancelled"))
        if self.state == "cancelled":
            raise CancelledError()
        if self._exc is not None:
            raise self._exc
        return self._res


class PreemptivePool:
    """A *thread* pool whose tasks are simulated threads: they share objects
    with the submitter and with each other and interleave at the scheduler's
    pre-emption points (unlike SimPool, where each task runs atomically)."""

    mode = "thread-preemptive"

    def __init__(self, sched, workers):
        self.sched = sched
        self._max_workers = int(workers)
        self._active = 0
        self._queue = []
        self._n = 0
        self.completion_order = []
        self.stats = {"submitted": 0, "completed": 0, "cancelled": 0, "out_of_order": 0, "max_inflight": 0, "batched": 0,
                      "cancel_refused": 0}

    def submit(self, fn, *args, **kwargs):
        fut = PreemptiveFuture(self, self._n)
        self._n += 1
        self.stats["submitted"] += 1

        def task():
            fut.state = "running"
            try:
                fut._res = fn(*args, **kwargs)
            except Exception as e:
                fut._exc = e
            fut.state = "done"
            if self.completion_order and fut.idx < max(self.completion_order):
                self.stats["out_of_order"] += 1
            self.completion_order.append(fut.idx)
            self.stats["completed"] += 1
            self._active -= 1
            self._start_next()

        self._queue.append((fut, task))
        self._start_next()
        return fut

    def _start_next(self):
        while self._queue and self._active < self._max_workers:
            fut, task = self._queue.pop(0)
            self._active += 1
            self.stats["max_inflight"] = max(self.stats["max_inflight"], self._active)
            self.sched.spawn(task)

    def shutdown(self, wait=True):
        pass


def segments(trace):
    """Run-length encode a choice list."""
    out = []
    for t in trace:
        if out and out[-1][0] == t:
            out[-1][1] += 1
        else:
            out.append([t, 1])
    return out


def unsegment(segs):
    out = []
    for t, n in segs:
        out.extend([t] * n)
    return out
