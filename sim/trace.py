"""Event log, digests, replay files and a generic ddmin list minimiser."""

import hashlib
import json
import os


def canon(obj):
    """JSON-able canonical form (tuples→lists, frozensets sorted, etc.)."""
    if isinstance(obj, dict):
        return {str(k): canon(v) for k, v in sorted(obj.items(), key=lambda kv: str(kv[0]))}
    if isinstance(obj, (list, tuple)):
        return [canon(x) for x in obj]
    if isinstance(obj, (set, frozenset)):
        return sorted((canon(x) for x in obj), key=lambda x: json.dumps(x, sort_keys=True))
    if isinstance(obj, float):
        if obj != obj:
            return "nan"
        if obj in (float("inf"), float("-inf")):
            return "inf" if obj > 0 else "-inf"
        return obj
    if isinstance(obj, (str, int, bool)) or obj is None:
        return obj
    try:
        import numpy as np

        if isinstance(obj, np.integer):
            return int(obj)
        if isinstance(obj, np.floating):
            return canon(float(obj))
        if isinstance(obj, np.ndarray):
            return {"nd": list(obj.shape), "sha": hashlib.sha256(np.ascontiguousarray(obj).tobytes()).hexdigest()[:16]}
    except Exception:
        pass
    return repr(obj)


class EventLog:
    """Append-only log whose digest identifies one execution exactly.
    Logging never draws from a PRNG and never reads a clock."""

    def __init__(self, keep=200):
        self._h = hashlib.sha256()
        self.n = 0
        self.keep = keep
        self.head = []

    def add(self, *event):
        s = json.dumps(canon(event), sort_keys=True, separators=(",", ":"))
        self._h.update(s.encode())
        self._h.update(b"\n")
        if self.n < self.keep:
            self.head.append(s)
        self.n += 1

    def digest(self):
        return self._h.hexdigest()


def write_replay(path, payload):
    os.makedirs(os.path.dirname(path), exist_ok=True)
    tmp = path + ".tmp"
    with open(tmp, "w") as f:
        json.dump(canon(payload), f, indent=1, sort_keys=True)
    os.replace(tmp, path)


def read_replay(path):
    with open(path) as f:
        return json.load(f)


def ddmin(items, fails, max_tests=400):
    """Classic delta debugging on a list: returns a 1-minimal (up to budget)
    sub-list on which ``fails(sublist)`` is still True."""
    tests = 0
    n = 2
    items = list(items)
    while len(items) >= 2 and tests < max_tests:
        chunk = max(1, len(items) // n)
        subsets = [items[i:i + chunk] for i in range(0, len(items), chunk)]
        reduced = False
        # try complements (remove one chunk)
        for i in range(len(subsets)):
            comp = [x for j, s in enumerate(subsets) if j != i for x in s]
            tests += 1
            if comp and fails(comp):
                items = comp
                n = max(n - 1, 2)
                reduced = True
                break
            if tests >= max_tests:
                break
        if not reduced:
            if n >= len(items):
                break
            n = min(len(items), n * 2)
    # final single-element removal pass
    i = 0
    while i < len(items) and tests < max_tests and len(items) > 1:
        cand = items[:i] + items[i + 1:]
        tests += 1
        if fails(cand):
            items = cand
        else:
            i += 1
    return items
