"""Engine `threads` — one shared optimizer object, several simulated caller
threads under a controlled scheduler.  Serves C16.  DESIGN.md §4 C16.
"""

import copy
import os
import random
import shutil
import tempfile
import warnings

from sim import clock as simclock
from sim import netgen, prng, seams
from sim import threads as simthreads
from sim.trace import EventLog, canon, ddmin

CASE_TIMEOUT = 900
LEVEL = {"C16": "exploration"}
PLAN = {"C16": {
    "quick": {"runs": 11000, "wall_cap": 115, "chunk": 25, "selftest": 6},
    "thorough": {"runs": 200000, "wall_cap": 1700, "chunk": 50, "selftest": 30},
}}
RULE = {"C16": (
    "one evaluation = one seeded run: one shared optimizer object (string preset auto / auto-hq / greedy / optimal / "
    "optimal-outer / random through array_contract_tree/path, AutoOptimizer / AutoHQOptimizer with cache on or off, "
    "ReusableHyperOptimizer / ReusableRandomGreedyOptimizer in memory or on a directory, overwrite False/True/'improved'), "
    "1-3 simulated caller threads with 1-4 queries each over a pool of 4-7 different contractions containing equal-size "
    "pairs on both sides of the optimal/hyper hardness cut-off; real threads are serialised by a baton and pre-empted at "
    "line events of the optimizer / interface code according to a seeded random-walk or PCT(d<=3) schedule; a later thread "
    "may be handed the ident of one that exited. Swarm toggles per run: the shared optimizer farms its trials out to a thread "
    "pool whose tasks are further simulated threads; all threads ask about the same one or two contractions; callers keep one "
    "set of argument containers edited in place; one store into a directory cache fails with ENOSPC, or every trial of a flagged query fails (that query may fail); a caller switches a shared Reusable* object to cache_only part way through. "
    "Every answer is checked against the query that issued it; a run that only polls is a livelock. "
    "distinct_nontrivial counts distinct (optimizer kind, context-switch signature = sequence of (from, to, function)) "
    "among runs with at least one context switch or at least two queries."
)}
COMPONENTS = {
    "real": ["real threading.Thread callers", "cotengra.presets (AutoOptimizer, AutoHQOptimizer, registered presets)",
             "cotengra.reusable.ReusableOptimizer + ReusableHyperOptimizer / ReusableRandomGreedyOptimizer",
             "cotengra.hyperoptimizers.hyper.HyperOptimizer (tiny seeded searches)", "cotengra.interface dispatch and caches",
             "cotengra.utils.DiskDict on a scratch directory behind the interposed file-system layer (one injected ENOSPC)"],
    "stub": ["OS scheduler -> baton + sys.settrace line events in whitelisted cotengra functions, chooser seeded (random walk / PCT / replay)",
             "threading.get_ident as seen by cotengra.presets / reusable / utils -> simulator-assigned idents (ident reuse after exit)",
             "time.time -> virtual clock with a tick per read",
             "thread pool given to the shared optimizer -> sim.threads.PreemptivePool (tasks = simulated threads of the same scheduler)",
             "threading.Lock / RLock created by cotengra -> simulated locks (contention yields the baton)"],
}
ASSUMPTIONS = {"C16": [
    "pre-emption is at line granularity inside the whitelisted optimizer / interface functions; pathfinder internals and C extensions run atomically (they share no state between queries)",
    "two threads that are alive at the same time never share an ident (the OS guarantees that)",
    "RandomGreedyOptimizer and bare HyperOptimizer are excluded: documented as single-contraction objects",
    "quality of the returned tree is not judged, only that it belongs to the query (inputs, output, size_dict, N, completeness; well-formed path)",
]}
EXPECTED_PROBES = {"C16": ["probe:context_switch", "probe:ident_reused", "probe:hyper_branch", "probe:optimal_branch",
                           "kind:preset:auto", "kind:auto-nocache", "kind:auto-cache", "kind:reusable-hyper", "kind:reusable-rgreedy",
                           "sampler:pct", "sampler:walk", "probe:same_size_pair_queried", "probe:switch_inside_reusable_search", "probe:twin_queried",
                           "probe:contract_through_interface_caches", "probe:nested_reentrant_query", "probe:shared_mutable_args", "disk_error_injected", "probe:trials_in_thread_pool", "all_trials_of_a_query_failed", "probe:cache_only_switched_on"]}


def violation_class(v):
    return (v["oracle"],)


class C(dict):
    def __missing__(self, k):
        return 0


_WL_FILES = {"reusable.py": None, "presets.py": None, "interface.py": None,
             "hyper.py": {"search", "_search", "tree", "path", "setup", "_maybe_report_result", "_gen_results", "get_tree",
                          "__call__", "_maybe_cancel_futures", "_reconstruct_tree", "_deconstruct_tree", "_get_suboptimizer"},
             "utils.py": {"__contains__", "__getitem__", "__setitem__"},
             "path_basic.py": {"search", "__call__", "ssa_path", "maybe_update_defaults", "_reconstruct_tree",
                               "_deconstruct_tree", "_get_suboptimizer"},
             "path_random.py": {"search", "__call__"},
             # the cached expression objects handed out by the interface are shared between threads too
             "contract.py": {"__call__", "extract_contractions", "make_contractor"},
             "core.py": {"get_contractor", "sort_contraction_indices", "reset_contraction_indices"}}


def _whitelist(base, name, full):
    if "cotengra" not in full:
        return False
    if base not in _WL_FILES:
        return False
    names = _WL_FILES[base]
    return names is None or name in names


# ---------------------------------------------------------------------------
# a hyper method that re-enters the shared optimizer from inside one of its own trials (same thread), the way
# cotengra's own partition builders do (build_divide contracts its groups with super_optimize='auto-hq')

_NESTED = {"opt": None, "depth": 0, "answers": []}


def _nested_trial(inputs, output, size_dict, **kw):
    import cotengra as ctg
    from cotengra.pathfinders.path_greedy import trial_greedy

    opt = _NESTED["opt"]
    n = len(inputs)
    if opt is None or n <= 4 or _NESTED["depth"] >= 2:
        return trial_greedy(inputs, output, size_dict)
    k = n // 2 + 1
    sub_inputs = tuple(tuple(t) for t in inputs[:k])
    outside = set(output)
    for t in inputs[k:]:
        outside.update(t)
    sub_output = []
    for t in sub_inputs:
        for ix in t:
            if ix in outside and ix not in sub_output:
                sub_output.append(ix)
    sub_output = tuple(sub_output)
    sub_sizes = {ix: size_dict[ix] for t in sub_inputs for ix in t}
    _NESTED["depth"] += 1
    try:
        sub_tree = opt.search(sub_inputs, sub_output, sub_sizes)
    finally:
        _NESTED["depth"] -= 1
    _NESTED["answers"].append(({"inputs": [list(t) for t in sub_inputs], "output": list(sub_output), "size_dict": sub_sizes}, sub_tree))
    ssa = []
    for (i, j) in sub_tree.get_ssa_path():
        ssa.append(tuple(x if x < k else n + (x - k) for x in (i, j)))
    # the group first (ids k.. of the sub path become n.. in the full path), the rest greedily
    import warnings

    with warnings.catch_warnings():
        warnings.simplefilter("ignore")
        return ctg.ContractionTree.from_path(inputs, output, size_dict, ssa_path=ssa, autocomplete=True, optimize="greedy")


_ARMED = set()  # contractions (as hashable keys) whose trials the simulator currently makes fail
_ARMED_FIRED = [0]


def _ckey(inputs, output):
    return (tuple(tuple(t) for t in inputs), tuple(output))


def _failing_trial(inputs, output, size_dict, **kw):
    """greedy, unless the simulator has armed a fault for this contraction: then the trial raises."""
    if _ckey(inputs, output) in _ARMED:
        _ARMED_FIRED[0] += 1
        raise RuntimeError("injected trial failure")
    from cotengra.pathfinders.path_greedy import trial_greedy

    return trial_greedy(inputs, output, size_dict, **kw)


def _register_nested():
    from cotengra.hyperoptimizers import hyper as H

    if "sim-nested" not in H._PATH_FNS:
        H.register_hyper_function("sim-nested", _nested_trial, {})
    if "sim-c16-greedy" not in H._PATH_FNS:
        H.register_hyper_function("sim-c16-greedy", _failing_trial, dict(H._HYPER_SEARCH_SPACE["greedy"]),
                                  dict(H._HYPER_CONSTANTS["greedy"]))


# ---------------------------------------------------------------------------
# generation

KINDS = ["preset:auto", "preset:auto", "preset:auto-hq", "preset:greedy", "preset:optimal", "preset:optimal-outer", "preset:random",
         "auto-cache", "auto-cache", "auto-nocache", "auto-nocache", "autohq-cache", "autohq-nocache",
         "reusable-hyper", "reusable-hyper", "reusable-rgreedy"]


def _hardness(inputs):
    n = len(inputs)
    k = sum(map(len, inputs)) / n
    return n ** 2 * k ** 0.5


def gen_case(prop, seed, tier):
    sw = prng.stream(seed, "swarm")
    net_rng = prng.stream(seed, "net")
    kind = sw.choice(KINDS)
    pool = []
    if kind in ("preset:auto", "preset:auto-hq"):
        # fixed cut-offs 250 / 650: need networks on both sides
        sizes = [5, 5, 8, 13, 13, 14] if kind == "preset:auto" else [5, 5, 9, 13, 13]
        if kind == "preset:auto-hq" and sw.random() < 0.3:
            sizes += [20, 20]
    elif kind.startswith("preset:optimal"):
        sizes = [3, 3, 4, 5, 5, 6]
    else:
        sizes = [4, 4, 5, 7, 7, 8, 8]
    sw.shuffle(sizes)
    sizes = sizes[: sw.randint(4, 7)]
    for n in sizes:
        feat = {"hyper": sw.random() < 0.25, "out_hyper": sw.random() < 0.2}
        dims = sw.choice([(2, 3), (2,), (2, 3, 5), (4, 7)])
        for _ in range(50):
            i, o, s = netgen.gen_network(net_rng, n_min=n, n_max=n, max_inds=3 * n, dims=dims, max_rank=4 if n < 12 else 3,
                                         space_cap=2 ** 200, feat=feat)
            if s:
                break
        pool.append({"inputs": i, "output": o, "size_dict": s})
    # near-twins of pool members: same tensors with the output in another order, or every index renamed
    # (a reusable optimizer fingerprints these alike or almost alike; the answer must still be the query's own)
    for _ in range(sw.choice([0, 1, 1, 2])):
        src = pool[sw.randrange(len(pool))]
        r_tw = sw.random()
        cands_t = [i for i, t in enumerate(src["inputs"]) if len(set(t)) >= 2]
        if r_tw < 0.3 and cands_t:
            # the same network with the axes of one operand in another order (a transposed operand)
            i = sw.choice(cands_t)
            t2 = list(src["inputs"][i])
            for _k in range(6):
                sw.shuffle(t2)
                if t2 != list(src["inputs"][i]):
                    break
            ins = [list(t) for t in src["inputs"]]
            ins[i] = t2
            pool.append({"inputs": ins, "output": list(src["output"]), "size_dict": dict(src["size_dict"]), "twin": "term-permuted"})
        elif len(src["output"]) >= 2 and r_tw < 0.7:
            o = list(src["output"])
            for _k in range(6):
                sw.shuffle(o)
                if o != list(src["output"]):
                    break
            pool.append({"inputs": [list(t) for t in src["inputs"]], "output": o, "size_dict": dict(src["size_dict"]), "twin": "output-permuted"})
        else:
            names = sorted(src["size_dict"])
            perm = names[:]
            sw.shuffle(perm)
            m = dict(zip(names, perm))
            pool.append({"inputs": [[m[ix] for ix in t] for t in src["inputs"]], "output": [m[ix] for ix in src["output"]],
                         "size_dict": {m[k]: v for k, v in src["size_dict"].items()}, "twin": "renamed"})
    hs = sorted(_hardness(q["inputs"]) for q in pool)
    cutoff = (hs[len(hs) // 2 - 1] + hs[len(hs) // 2]) / 2 + 0.01
    if sw.random() < 0.3:
        cutoff = 1.0  # everything (also nested sub-contractions) takes the hyper route
    nthreads = sw.choice([1, 2, 2, 3, 3])
    threads = []
    # swarm: some runs have all threads ask about the same one or two contractions at the same time (first use of a
    # shared cache entry from several threads at once)
    focus = sw.choice([None, None, 1, 2])
    for t in range(nthreads):
        vias = ["search", "search", "call"] + (["contract", "contract"] if kind.startswith("preset:") else [])
        if focus and kind.startswith("preset:"):
            vias = ["contract", "contract", "contract", "search", "call"]
        qs = [{"q": (sw.randrange(focus) if focus and sw.random() < 0.8 else sw.randrange(len(pool))), "via": sw.choice(vias)}
              for _ in range(sw.randint(1, 4))]
        threads.append({"queries": qs, "start_after": None, "ident": 1000 + t})
    # ident reuse: a late thread that starts after another exited and inherits its ident
    if nthreads >= 2 and sw.random() < 0.4:
        a = sw.randrange(nthreads - 1)
        b = nthreads - 1
        threads[b]["start_after"] = a
        threads[b]["ident"] = threads[a]["ident"]
    cfg = {"kind": kind, "optimal_cutoff": cutoff, "max_repeats": sw.randint(1, 4), "opt_seed": sw.randrange(2 ** 31),
           "methods": sw.choice([["greedy"], ["random-greedy"], ["greedy", "labels"], ["sim-nested"], ["sim-nested", "greedy"]]),
           "max_time": sw.choice([None, None, "rate:1e6", "rate:1e9"]),
           "directory": sw.random() < 0.4, "overwrite": sw.choice([False, False, True, "improved"]),
           "reconf": sw.random() < 0.5, "path_cache": sw.random() < 0.5,
           # the shared optimizer farms its trials out to a thread pool whose tasks are further simulated threads
           "pool_workers": None if kind.startswith("preset:") else sw.choice([None, None, 2, 3])}
    sched = {"sampler": sw.choice(["walk", "walk", "pct"]), "p": sw.choice([0.02, 0.05, 0.1, 0.3, 0.6]),
             "depth": sw.randint(1, 3), "seed": sw.randrange(2 ** 31), "est_steps": sw.choice([100, 400, 1500]), "choices": None}
    # fault: every trial of one query's search fails (that query may fail; whatever is answered must be right)
    if kind in ("reusable-hyper", "auto-cache", "auto-nocache", "autohq-cache", "autohq-nocache") and sw.random() < 0.25:
        cfg["methods"] = ["sim-c16-greedy"]
        for th in threads:
            for qq in th["queries"]:
                if sw.random() < 0.3:
                    qq["fail_trials"] = True
    # the caller switches the shared Reusable* object to cache_only part way through (a public attribute)
    # (not with re-entrant trials: a nested query refused by cache_only makes its outer trial, hence the outer query, fail)
    if kind.startswith("reusable") and "sim-nested" not in cfg["methods"] and sw.random() < 0.15:
        th = sw.choice(threads)
        sw.choice(th["queries"])["flip_cache_only"] = True
    if cfg["pool_workers"]:
        sched["sampler"] = "walk"
        if "sim-nested" in cfg["methods"]:
            # a trial that queries the optimizer again would wait, inside a pool task, for tasks queued behind itself
            cfg["methods"] = ["greedy", "random-greedy"]
    return {"seed": seed, "pool": pool, "cfg": cfg, "threads": threads, "sched": sched, "tick": sw.choice([1e-4, 1e-3, 1e-2]),
            "args_mode": sw.choice(["fresh", "fresh", "shared-mutable"]),
            # disk fault: one store of a directory-backed cache fails with ENOSPC (the query may fail; later ones must be right)
            "disk_error_op": sw.choice([None, None, sw.randint(0, 12)]) if cfg["directory"] else None}


# ---------------------------------------------------------------------------


def _make_shared(ctg, cfg, scratch, parallel=False):
    from cotengra.presets import AutoHQOptimizer, AutoOptimizer

    kind = cfg["kind"]
    if kind.startswith("preset:"):
        return kind.split(":", 1)[1]
    hk = dict(max_repeats=cfg["max_repeats"], optlib="random", methods=list(cfg["methods"]), max_time=cfg["max_time"],
              parallel=parallel, seed=cfg["opt_seed"])
    if kind.startswith("auto"):
        cls = AutoHQOptimizer if kind.startswith("autohq") else AutoOptimizer
        kw = dict(hk)
        kw["reconf_opts"] = {"subtree_size": 3, "maxiter": 2} if cfg["reconf"] else {"subtree_size": 2, "maxiter": 1}
        return cls(optimal_cutoff=cfg["optimal_cutoff"], cache=kind.endswith("-cache") and not kind.endswith("nocache"), **kw)
    directory = os.path.join(scratch, "cache") if cfg["directory"] else None
    if kind == "reusable-hyper":
        return ctg.ReusableHyperOptimizer(directory=directory, overwrite=cfg["overwrite"], **hk)
    from cotengra.pathfinders.path_basic import ReusableRandomGreedyOptimizer

    return ReusableRandomGreedyOptimizer(directory=directory, overwrite=cfg["overwrite"], max_repeats=cfg["max_repeats"],
                                         seed=cfg["opt_seed"], parallel=parallel)


def _reset_process_globals():
    """Module singletons behind the string presets keep per-thread state: start cold."""
    import cotengra.presets as P
    from engines import cache as cache_engine

    cache_engine.cold_start()
    for o in (P.auto_optimize, P.auto_hq_optimize):
        d = getattr(o, "_hyperoptimizers_by_thread", None)  # (private: absent if the library keeps this state elsewhere;
        if isinstance(d, dict):  # cold_start above has already put the preset objects back into their import-time state)
            d.clear()


def _check_answer(via, ans, q):
    inputs = tuple(tuple(t) for t in q["inputs"])
    output = tuple(q["output"])
    size_dict = dict(q["size_dict"])
    if via == "search":
        tree = ans
        if not hasattr(tree, "is_complete"):
            return f"search returned {type(tree).__name__}, not a tree"
        if tree.N != len(inputs):
            return f"tree.N={tree.N} but the query has {len(inputs)} tensors"
        if tuple(tuple(t) for t in tree.inputs) != inputs:
            return "tree.inputs are those of another contraction"
        if tuple(tree.output) != output:
            return f"tree.output {tuple(tree.output)} != queried {output}"
        if dict(tree.size_dict) != size_dict:
            return "tree.size_dict is that of another contraction"
        if not tree.is_complete():
            return "tree is not complete"
        return None
    from engines.store import check_path

    return check_path(ans, q)


def run_case(prop, case):
    import cotengra as ctg

    simthreads.install_shim()
    _register_nested()
    seams.install()
    seams.set_entropy(prng.H(case["seed"], "os-entropy"))
    log = EventLog()
    counters, faults = C(), C()
    states = set()
    violations = []
    cfg = case["cfg"]
    kind = cfg["kind"]
    pool = case["pool"]
    scratch = tempfile.mkdtemp(prefix="verif-c16-", dir=_scratch_base())
    clk = simclock.VirtualClock()
    tick = case.get("tick", 1e-3)

    def on_read(c):
        c.now += tick

    clk.on_read = on_read
    sc = case["sched"]
    if sc.get("choices") is not None:
        chooser = simthreads.ReplayChooser(sc["choices"])
    elif sc["sampler"] == "walk":
        chooser = simthreads.WalkChooser(random.Random(sc["seed"]), sc["p"])
    else:
        chooser = simthreads.PCTChooser(random.Random(sc["seed"]), len(case["threads"]), sc["depth"], sc["est_steps"])
    counters["sampler:" + ("replay" if sc.get("choices") is not None else sc["sampler"])] += 1
    counters["kind:" + kind] += 1
    sched = simthreads.Scheduler(chooser, _whitelist, max_points=2_000_000 if cfg.get("pool_workers") else 200000, max_yields=100_000)
    answers = []  # (thread, k, q index, via, answer or exception)
    cur_query = {}
    fault_hit = set()  # (thread, query) during which the injected disk error fired
    faulted_q = set()  # contractions for which some query had all its trials fail
    flipped = [False]
    _ARMED.clear()
    fired0 = _ARMED_FIRED[0]
    log.add("case", case["seed"], cfg, [(q["inputs"], q["output"]) for q in pool], case["threads"])
    nq = 0
    try:
        from sim import fs as simfs

        simfs.install()
        fsim = simfs.SimFS(scratch)
        with simclock.activate(clk), simfs.activate(fsim), warnings.catch_warnings():
            warnings.simplefilter("ignore")
            _reset_process_globals()
            prng.reseed_globals(prng.H(case["seed"], "threads"))
            parallel = False
            if cfg.get("pool_workers"):
                parallel = simthreads.PreemptivePool(sched, cfg["pool_workers"])
                clk.sleep_hook = lambda: sched.yield_now(sched.index_of_current())
                counters["probe:trials_in_thread_pool"] += 1
            shared = _make_shared(ctg, cfg, scratch, parallel)
            if case.get("disk_error_op") is not None:
                # counted from the first mutating call made on behalf of a query
                fsim.error_at = {len(fsim.ops) + int(case["disk_error_op"])}
                fsim.on_error = lambda: fault_hit.add((sched.index_of_current(), cur_query.get(sched.index_of_current())))
            _NESTED["opt"] = shared if not isinstance(shared, str) else None
            _NESTED["depth"] = 0
            _NESTED["answers"] = []

            def body(ti, th):
                def fn():
                    live_in, live_out, live_sz = [], [], {}
                    for k, qq in enumerate(th["queries"]):
                        cur_query[ti] = k
                        q = pool[qq["q"] % len(pool)]
                        inputs = tuple(tuple(t) for t in q["inputs"])
                        output = tuple(q["output"])
                        size_dict = dict(q["size_dict"])
                        if case.get("args_mode") == "shared-mutable" and qq["via"] != "contract":
                            # this caller keeps ONE set of argument containers and edits them in place per query
                            live_in[:] = [list(t) for t in q["inputs"]]
                            live_out[:] = list(q["output"])
                            live_sz.clear()
                            live_sz.update(q["size_dict"])
                            inputs, output, size_dict = live_in, live_out, live_sz
                        armed_key = None
                        if qq.get("fail_trials"):
                            armed_key = _ckey(q["inputs"], q["output"])
                            _ARMED.add(armed_key)
                            faulted_q.add(armed_key)
                        if qq.get("flip_cache_only") and not isinstance(shared, str):
                            shared.cache_only = True
                            flipped[0] = True
                            counters["probe:cache_only_switched_on"] += 1
                        try:
                            if qq["via"] == "contract" and (not isinstance(shared, str) or netgen.index_space(size_dict) > 2 ** 14):
                                qq = dict(qq, via="search")
                            if qq["via"] == "contract":
                                arrays = netgen.make_arrays(inputs, size_dict, prng.H(case["seed"], "arr", ti, k) % (2 ** 31))
                                strip = bool(prng.H(case["seed"], "strip", qq["q"]) % 2)  # per contraction, so threads share the cached expression
                                sort_ci = bool(prng.H(case["seed"], "sortci", ti, k) % 2)
                                out = ctg.array_contract(arrays, inputs, output, optimize=shared, canonicalize=True, strip_exponent=strip,
                                                         sort_contraction_indices=sort_ci)
                                if strip:
                                    import numpy as _np

                                    out = _np.asarray(out[0]) * 10.0 ** float(out[1])
                                ans = ("value", out, arrays)
                            elif isinstance(shared, str):
                                if qq["via"] == "search":
                                    ans = ctg.array_contract_tree(inputs, output, size_dict, optimize=shared, canonicalize=False)
                                else:
                                    ans = ctg.array_contract_path(inputs, output, size_dict, optimize=shared, canonicalize=False,
                                                                  cache=cfg["path_cache"])
                            elif qq["via"] == "search":
                                ans = shared.search(inputs, output, size_dict)
                            else:
                                ans = shared(inputs, output, size_dict)
                        except simthreads.HarnessError:
                            raise
                        except Exception as e:
                            ans = e
                        finally:
                            if armed_key is not None:
                                _ARMED.discard(armed_key)
                        via_eff = qq["via"] if not (isinstance(ans, tuple) and len(ans) == 3 and ans[0] == "value") else "contract"
                        verdict = None
                        if via_eff != "contract" and not isinstance(ans, BaseException):
                            # judged at once: with long-lived argument containers the tree aliases the caller's lists
                            try:
                                verdict = ("why", _check_answer(via_eff, ans, q))
                            except Exception as e:  # malformed answer
                                verdict = ("why", f"answer could not be inspected: {type(e).__name__}: {e}")
                        answers.append((ti, k, qq["q"] % len(pool), via_eff, ans, verdict))
                return fn

            fns = [body(ti, th) for ti, th in enumerate(case["threads"])]
            sched.run(fns, [th["ident"] for th in case["threads"]], [th["start_after"] for th in case["threads"]])
    finally:
        seams.set_entropy(None)
        shutil.rmtree(scratch, ignore_errors=True)
        try:
            _reset_process_globals()
        except Exception:
            pass
    # ---- oracle: every answer belongs to the query that issued it --------------------
    sizes_asked = C()
    for (ti, k, qi, via, ans, verdict) in answers:
        nq += 1
        q = pool[qi]
        sizes_asked[len(q["inputs"])] += 1
        if q.get("twin"):
            counters["probe:twin_queried"] += 1
        if _hardness(q["inputs"]) < (cfg["optimal_cutoff"] if not kind.startswith("preset") else (250 if kind == "preset:auto" else 650)):
            counters["probe:optimal_branch"] += 1
        else:
            counters["probe:hyper_branch"] += 1
        if isinstance(ans, Exception) and _ckey(q["inputs"], q["output"]) in faulted_q and _ARMED_FIRED[0] > fired0 and not isinstance(ans, simthreads.SimDeadlock):
            # all trials of a search for this contraction were made to fail: the query (or one overlapping it) may fail
            faults["trial_fault_surfaced"] += 1
            continue
        if isinstance(ans, KeyError) and flipped[0] and "missing from cache" in str(ans):
            counters["probe:cache_only_refusal"] += 1
            continue
        if isinstance(ans, Exception) and (ti, k) in fault_hit:
            # the query during which the disk error fired may fail in whatever way the error surfaces (e.g. all its
            # trials lost, KeyError 'tree'); everything after it must be right again
            faults["disk_error_surfaced"] += 1
            continue
        if type(ans).__name__ == "DiskFault":
            # the injected disk error may surface from the query that hit it; everything after must be right again
            faults["disk_error_surfaced"] += 1
            continue
        if isinstance(ans, simthreads.SimDeadlock):
            violations.append({"oracle": "deadlock",
                               "detail": f"thread {ti} query {k} ({via}, contraction #{qi}): {ans}",
                               "sig": {"kind": kind, "via": via, "threads": len(case["threads"])}})
            continue
        if isinstance(ans, Exception):
            violations.append({"oracle": "query-raised",
                               "detail": f"thread {ti} query {k} ({via}, contraction #{qi}, {len(q['inputs'])} tensors) raised {type(ans).__name__}: {ans}",
                               "sig": {"kind": kind, "via": via, "error": type(ans).__name__, "threads": len(case["threads"])}})
            continue
        if via == "contract":
            import numpy as np

            _, got, arrays = ans
            ref = netgen.reference(q["inputs"], q["output"], arrays)
            scale = netgen.reference_abs(q["inputs"], q["output"], arrays)
            got = np.asarray(got)
            why = None
            if got.shape != ref.shape:
                why = f"array_contract returned shape {got.shape}, the query's einsum has {ref.shape}"
            elif not np.all(np.abs(got - ref) <= 1e-9 * scale + 1e-300):
                why = f"array_contract returned another contraction's value (max err {float(np.abs(got - ref).max()):.3e})"
            counters["probe:contract_through_interface_caches"] += 1
            if why:
                violations.append({"oracle": "answer-belongs-to-another-query",
                                   "detail": f"thread {ti} query {k} (contract, contraction #{qi}): {why}",
                                   "sig": {"kind": kind, "via": via, "threads": len(case["threads"]), "sequential": sched.switches == 0}})
            log.add("ans", ti, k, qi, via, list(got.shape))
            continue
        why = verdict[1] if verdict is not None else _check_answer(via, ans, q)
        if why:
            violations.append({"oracle": "answer-belongs-to-another-query",
                               "detail": f"thread {ti} query {k} ({via}, contraction #{qi}, {len(q['inputs'])} tensors): {why}",
                               "sig": {"kind": kind, "via": via, "threads": len(case["threads"]),
                                       "sequential": sched.switches == 0}})
        try:
            log.add("ans", ti, k, qi, via, ans.get_ssa_path() if via == "search" else [list(p) for p in ans])
        except Exception:
            log.add("ans", ti, k, qi, via, repr(type(ans)))
    for (subq, subtree) in _NESTED["answers"]:
        counters["probe:nested_reentrant_query"] += 1
        why = _check_answer("search", subtree, subq)
        if why:
            violations.append({"oracle": "answer-belongs-to-another-query",
                               "detail": f"nested (re-entrant, same thread) query about a {len(subq['inputs'])}-tensor sub-contraction: {why}",
                               "sig": {"kind": kind, "via": "nested", "threads": len(case["threads"]), "sequential": sched.switches == 0}})
    _NESTED["opt"] = None
    _NESTED["answers"] = []
    if sched.lock_contentions:
        counters["probe:lock_contention"] += sched.lock_contentions
    qset = {pool[a[2]]["inputs"].__len__() for a in answers}
    qdistinct = {a[2] for a in answers}
    if len(qdistinct) > len(qset):
        counters["probe:same_size_pair_queried"] += 1
    if sched.switches:
        counters["probe:context_switch"] += sched.switches
        faults["schedule:context_switches"] += sched.switches
    if any(f in ("search", "_maybe_run_optimizer", "_run_optimizer", "last_opt") for (_, _, f) in sched.sig):
        counters["probe:switch_inside_reusable_search"] += 1
    if _ARMED_FIRED[0] > fired0:
        faults["all_trials_of_a_query_failed"] += 1
    _ARMED.clear()
    if "fsim" in dir() and fsim.errors_fired:
        faults["disk_error_injected"] += fsim.errors_fired
    if case.get("args_mode") == "shared-mutable":
        counters["probe:shared_mutable_args"] += 1
    if any(th["start_after"] is not None for th in case["threads"]):
        counters["probe:ident_reused"] += 1
        faults["ident_reuse"] += 1
    counters["preemption_points"] += sched.points
    counters["polling_yields"] += sched.yields
    log.add("schedule", simthreads.segments(sched.trace))
    log.add("violations", [(v["oracle"], v["detail"]) for v in violations])
    if sched.switches or nq >= 2:
        states.add(prng.H(kind, [(a, b, f) for (a, b, f) in sched.sig]))
    for v in violations:
        v["sig"]["drift"] = getattr(chooser, "drift", 0)
    sample = {"kind": kind, "threads": [[(q["q"], q["via"]) for q in th["queries"]] for th in case["threads"]],
              "idents": [th["ident"] for th in case["threads"]], "start_after": [th["start_after"] for th in case["threads"]],
              "tensors": [len(q["inputs"]) for q in pool], "sampler": sc["sampler"],
              "schedule_segments": simthreads.segments(sched.trace)[:60], "context_switches": sched.switches,
              "preemption_points": sched.points, "interesting": sched.switches >= 3 and len(case["threads"]) >= 2}
    return {"violations": violations, "digest": log.digest(), "counters": dict(counters), "faults": dict(faults),
            "states": list(states), "sim_seconds": clk.now, "nontrivial": bool(sched.switches or nq >= 2), "sample": sample,
            "_trace": list(sched.trace)}


def _scratch_base():
    from sim import fs as simfs

    return simfs.scratch_base()


# ---------------------------------------------------------------------------


def minimise(prop, case, v):
    cls = violation_class(v)
    budget = [80]

    def run(c):
        budget[0] -= 1
        try:
            return run_case(prop, c)
        except Exception:
            return None

    import time as _time

    t_end = _time.time() + 120.0  # wall budget of the minimiser only (stuck candidates cost a second or more each)

    def fails(c):
        if budget[0] <= 0 or _time.time() > t_end:
            return False
        r = run(c)
        return r is not None and any(violation_class(x) == cls for x in r["violations"])

    r0 = run(case)
    if r0 is None or not any(violation_class(x) == cls for x in r0["violations"]):
        return case, v
    # pin the schedule actually taken
    cur = copy.deepcopy(case)
    cur["sched"]["choices"] = list(r0["_trace"])
    if not fails(cur):
        return case, v
    # fewer queries / threads
    changed = True
    while changed and budget[0] > 0:
        changed = False
        for ti in range(len(cur["threads"])):
            qs = cur["threads"][ti]["queries"]
            for k in range(len(qs) - 1, -1, -1):
                if len(qs) <= 1:
                    break
                c2 = copy.deepcopy(cur)
                c2["threads"][ti]["queries"].pop(k)
                if fails(c2):
                    cur = c2
                    qs = cur["threads"][ti]["queries"]
                    changed = True
    # sequential schedule (no pre-emption at all)?
    c2 = copy.deepcopy(cur)
    c2["sched"]["choices"] = []
    if fails(c2):
        cur = c2
    else:
        segs = simthreads.segments(cur["sched"]["choices"])
        def f(ss):
            c3 = copy.deepcopy(cur)
            c3["sched"]["choices"] = simthreads.unsegment(ss)
            return fails(c3)
        if len(segs) > 1:
            segs = ddmin(segs, f, max_tests=40)
            cur["sched"]["choices"] = simthreads.unsegment(segs)
    budget[0] = 3
    r = run(cur)
    vs = [x for x in (r["violations"] if r else []) if violation_class(x) == cls]
    return cur, (vs[0] if vs else v)
