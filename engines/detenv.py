"""Engine `detenv` — environment-perturbation simulation for C17: the same
seeded cases are executed in several fresh interpreters that differ in
PYTHONHASHSEED, global RNG state and drift, warm-up history, case order and
pool completion order; results must be identical.  DESIGN.md §4 C17.
"""

import copy
import json
import os
import subprocess
import sys

from sim import netgen, prng
from sim.trace import EventLog, canon

VERIF_DIR = os.path.dirname(os.path.dirname(os.path.abspath(__file__)))
WORKER = os.path.join(VERIF_DIR, "engines", "detenv_worker.py")

CASE_TIMEOUT = 600
LEVEL = {"C17": "exploration"}
PLAN = {"C17": {
    "quick": {"runs": 64, "wall_cap": 115, "chunk": 1, "selftest": 3},
    "thorough": {"runs": 2000, "wall_cap": 1700, "chunk": 2, "selftest": 8},
}}
RULE = {"C17": (
    "one evaluation = one batch of ~45 seeded cases (api, network, arguments, integer seed) covering every public "
    "seeded operation (random-greedy serial/pool, random optimizer, labels/kahypar divide+agglom builders, tree.slice, "
    "SliceFinder, subtree_reconfigure in all select/search modes, forest variant serial/pool, simulated_anneal +/- "
    "slicing, parallel_temper serial/pool, unslice_rand, get_subtree(random), windowed_reconfigure, compressed greedy "
    "finders, and the random network/array generators) executed in 4 fresh interpreters that differ in PYTHONHASHSEED, "
    "global random/numpy state and drift between cases, warm-up history of unrelated cotengra calls, case order and "
    "pool completion order (same worker count); per-case result digests must agree. Some cases use the boundary seeds "
    "0 / 1 / 2^32-1, issue the same call twice on one object or after other seeded calls, or issue 2-3 seeded calls from "
    "simulated threads pre-empted at line granularity (schedule from the environment). distinct_nontrivial counts "
    "distinct (api, argument-shape) case kinds evaluated across environments."
)}
COMPONENTS = {
    "real": ["every seeded cotengra API under test, in fresh interpreters", "kahypar (native partitioner)", "numpy Generator based array makers"],
    "stub": ["environment: PYTHONHASHSEED, global random / numpy.random state, history of earlier calls and case order are set by the simulator",
             "worker pool -> sim.pool.SimPool with a per-environment completion order (same worker count)", "time -> virtual clock",
             "concurrent callers -> baton scheduler over real threads, every cotengra function pre-emptible, schedule per environment"],
}
ASSUMPTIONS = {"C17": [
    "cases are generated once in the parent and shipped as JSON, so every environment sees byte-identical arguments",
    "pool-using APIs are compared at the same worker count (the docstrings only promise determinism within a parallel setting)",
    "agreement across 4 sampled environments per batch; not all 2^64 hash seeds",
]}
EXPECTED_PROBES = {"C17": ["api:reconf_forest", "api:agglom", "api:divide", "api:reconf", "api:anneal", "api:temper", "api:tree_slice",
                           "api:rgreedy", "api:rand_equation", "api:get_subtree", "api:greedy_span", "env:hashseed_varied", "probe:twice_on_same_object", "api:object_interleaved", "api:threads_interleaved", "api:perverse_equation",
                           "env:pool_order_varied"]}


def violation_class(v):
    return (v["oracle"], v.get("sig", {}).get("api"))


class C(dict):
    def __missing__(self, k):
        return 0


# ---------------------------------------------------------------------------
# generation


def _net(rng, n_lo, n_hi, plain=False, dims=(2, 3)):
    feat = {} if plain else {"hyper": rng.random() < 0.3, "out_hyper": rng.random() < 0.2, "dangling_sum": rng.random() < 0.2}
    while True:
        i, o, s = netgen.gen_network(rng, n_min=n_lo, n_max=n_hi, max_inds=3 * n_hi, dims=dims, max_rank=4, space_cap=2 ** 80, feat=feat)
        if s and all(len(t) > 0 for t in i):
            return {"inputs": i, "output": o, "size_dict": s}


def _dense_net(rng):
    """10-13 tensors, ~30 indices each shared by 2-6 tensors plus two shared by all: a single greedy trial scores
    400-550 candidate pairs (path finding only; nothing this size is ever contracted)."""
    n = rng.randint(10, 13)
    terms = [[] for _ in range(n)]
    sizes = {}
    for q in range(rng.randint(26, 34)):
        ix = netgen.SYMS[q]
        sizes[ix] = rng.choice([2, 2, 3])
        k = n if q < 2 else rng.choice([2, 2, 3, 3, 4, 5, 6])
        for t in rng.sample(range(n), k):
            terms[t].append(ix)
    for t in terms:
        rng.shuffle(t)
    return {"inputs": terms, "output": [netgen.SYMS[2]] if any(netgen.SYMS[2] in t for t in terms) else [], "size_dict": sizes}


def _pool(rng):
    return {"workers": rng.randint(2, 4), "mode": rng.choice(["thread", "process"])}


def gen_cases(rng):
    cases = []

    def add(api, args=None, net=None, tree=False, pool=None, pre_sliced=None, twice=False):
        c = {"id": f"{len(cases)}-{api}", "api": api, "seed": rng.randrange(2 ** 31), "args": args or {}}
        if rng.random() < 0.08:
            # boundary seeds: 0 is falsy, 2**32-1 is the largest value numpy's legacy seeding accepts
            c["seed"] = rng.choice([0, 0, 1, 2 ** 32 - 1])
        if twice:
            c["twice"] = True
            c["id"] += "-twice"
            if rng.random() < 0.7:
                c["warm"] = {"subtree_size": rng.randint(3, 4), "maxiter": rng.randint(1, 3), "seed": rng.randrange(2 ** 31)}
        if net is not None:
            c["net"] = net
            if tree:
                c["ssa_path"] = netgen.random_ssa_path(rng, len(net["inputs"]))
        if pool is not None:
            c["pool"] = pool
        if pre_sliced:
            c["pre_sliced"] = pre_sliced
        cases.append(c)

    mid = lambda: _net(rng, 6, 10)  # noqa: E731
    big = lambda: _net(rng, 10, 16, plain=True)  # noqa: E731
    add("rgreedy", {"max_repeats": rng.randint(2, 6)}, mid())
    add("rgreedy", {"max_repeats": rng.randint(4, 8)}, mid(), pool=_pool(rng))
    add("rgreedy_track", {"ntrials": rng.randint(1, 4)}, mid())
    # a dense network with hyper indices: one greedy trial scores several hundred candidate pairs (batched / buffered
    # random draws have to be refilled within one trial)
    dense = _dense_net(rng)
    add("rgreedy", {"max_repeats": rng.randint(1, 3)}, dense)
    add("rgreedy_track", {"ntrials": rng.randint(1, 3)}, dense)
    add("random_opt", {}, mid())
    for part in ("labels", "kahypar"):
        add("divide", {"partitioner": part, "kw": {"cutoff": rng.randint(2, 5), "parts": rng.randint(2, 3), "random_strength": rng.choice([0.01, 0.5])}}, big())
        add("agglom", {"partitioner": part, "kw": {"groupsize": rng.randint(2, 4), "random_strength": rng.choice([0.01, 0.5])}}, big())
    add("tree_slice", {"kw": rng.choice([{"target_size": 2 ** rng.randint(1, 4)}, {"target_slices": rng.choice([2, 4, 8])},
                                         {"target_overhead": 2.0, "temperature": 1.0}])}, mid(), tree=True)
    add("tree_slice", {"kw": {"target_size": 4, "temperature": 1.0, "max_repeats": 4}}, mid(), tree=True)
    add("tree_slice", {"kw": {"target_slices": rng.choice([2, 4]), "allow_outer": rng.choice([False, "only"]), "temperature": rng.choice([0.01, 1.0])}},
        _net(rng, 6, 9, plain=True), tree=True)
    add("slicefinder", {"kw": {"target_slices": 4, "allow_outer": False, "temperature": 1.0}, "max_repeats": rng.randint(2, 6)}, mid(), tree=True)
    # the same seeded call twice on one (warmed) object
    add("tree_slice", {"kw": {"target_size": 2 ** rng.randint(1, 3), "temperature": 1.0}}, mid(), tree=True, twice=True)
    add("reconf", {"kw": {"select": rng.choice(["max", "random"]), "subtree_search": rng.choice(["bfs", "random"]), "subtree_size": rng.randint(3, 4),
                          "maxiter": rng.randint(2, 5)}}, mid(), tree=True, twice=True)
    add("reconf_forest", {"kw": {"num_trees": 2, "num_restarts": rng.randint(1, 2), "subtree_maxiter": 3, "subtree_size": rng.randint(3, 4)}}, mid(), tree=True, twice=True)
    add("anneal", {"kw": {"tsteps": 2, "numiter": 3}}, mid(), tree=True, twice=True)
    add("temper", {"kw": {"tsteps": 2, "num_trees": 2, "numiter": 2}}, mid(), tree=True, twice=True)
    add("slicefinder", {"kw": {"target_size": 2 ** rng.randint(1, 4), "temperature": rng.choice([0.01, 1.0])}, "max_repeats": rng.randint(1, 6)}, mid(), tree=True)
    # ... and the same seeded call twice in one interpreter for operations that take no tree (memoised tables, module state)
    part = rng.choice(["labels", "kahypar"])
    add(rng.choice(["divide", "agglom"]), {"partitioner": part, "kw": {"random_strength": rng.choice([0.01, 0.5])}}, big(), twice=True)
    k = rng.randrange(5)
    if k == 0:
        add("rgreedy", {"max_repeats": rng.randint(2, 5)}, mid(), twice=True)
    elif k == 1:
        add("random_opt", {}, mid(), twice=True)
    elif k == 2:
        add("greedy_span", {"kw": {"start": "max", "temperature": 0.5}}, _net(rng, 6, 10, plain=True), twice=True)
    elif k == 3:
        add("rand_equation", {"kw": {"n": rng.randint(3, 10), "reg": 3, "n_out": 1, "d_max": 4}}, twice=True)
    else:
        add("jitter_dict", {"strength": rng.choice([0.01, 1.0])}, mid(), twice=True)
    for select in ("max", "min", "random"):
        for search in ("bfs", "dfs", "random"):
            if rng.random() < 0.55 or (select, search) == ("random", "random"):
                add("reconf", {"kw": {"select": select, "subtree_search": search, "subtree_size": rng.randint(3, 5),
                                      "maxiter": rng.randint(2, 6), "weight_what": rng.choice(["flops", "size"])}}, mid(), tree=True)
    add("reconf_forest", {"kw": {"num_trees": rng.randint(2, 3), "num_restarts": rng.randint(1, 2), "subtree_maxiter": rng.randint(2, 4),
                                 "subtree_size": rng.randint(3, 4)}}, mid(), tree=True)
    add("reconf_forest", {"kw": {"num_trees": 3, "num_restarts": 2, "subtree_maxiter": 3, "subtree_size": 4}}, mid(), tree=True, pool=_pool(rng))
    add("anneal", {"kw": {"tsteps": rng.randint(2, 3), "numiter": rng.randint(2, 4)}}, mid(), tree=True)
    add("anneal", {"kw": {"tsteps": 3, "numiter": 3, "target_size": 2 ** rng.randint(1, 3), "slice_mode": rng.choice(["basic", "reslice", "drift"])}}, mid(), tree=True)
    add("temper", {"kw": {"tsteps": 2, "num_trees": rng.randint(2, 3), "numiter": 2}}, mid(), tree=True)
    add("temper", {"kw": {"tsteps": 2, "num_trees": 3, "numiter": 2, "target_size": 4}}, mid(), tree=True, pool=_pool(rng))
    n = mid()
    pre = sorted(n["size_dict"])[: rng.randint(2, 3)]
    add("unslice_rand", {}, n, tree=True, pre_sliced=pre)
    add("get_subtree", {"size": rng.randint(3, 5)}, mid(), tree=True)
    add("windowed", {"kw": {"minimize": rng.choice(["peak-compressed-4", "size-compressed-8"]), "window_size": 4, "max_iterations": rng.randint(2, 5),
                            "max_window_tries": 20, "score_temperature": 0.1}}, _net(rng, 6, 9, plain=True), tree=True)
    add("greedy_compressed", {"kw": {"chi": rng.choice([2, 4, 8]), "temperature": rng.choice([0.0, 0.5])}}, _net(rng, 6, 10, plain=True))
    add("greedy_span", {"kw": {"start": rng.choice(["max", "min"]), "temperature": rng.choice([0.0, 0.5])}}, _net(rng, 6, 10, plain=True))
    add("perverse_equation", {"kw": {"n": rng.randint(3, 8), "num_indices": rng.randint(3, 14), "max_rank": rng.randint(2, 5),
                                     "n_outer": rng.randint(0, 3)}})
    add("perverse_equation", {"kw": {"n": rng.randint(2, 4), "num_indices": rng.randint(10, 16), "max_rank": 3, "n_outer": rng.randint(1, 3)}})
    for kind in ("rgreedy", "random_opt", "slicefinder", "greedy_span"):
        if rng.random() < 0.6:
            add("object_interleaved", {"kind": kind, "other_seed": rng.randrange(2 ** 30), "target_size": 2 ** rng.randint(1, 3)},
                _net(rng, 6, 9, plain=(kind == "greedy_span")), tree=True)
    add("reusable_rgreedy_history", {"via": rng.choice(["search", "call"])}, mid(), )
    cases[-1]["net2"] = mid()
    add("seeded_optimizer_via_interface", {"other_seed": rng.randrange(2 ** 30)}, mid())
    # seeded calls issued from several simulated threads at once (pre-empted at line granularity under the seeded
    # baton scheduler, schedule taken from the environment's pool seed): each must return what it returns alone
    for _ in range(2):
        subs = []
        fam = rng.choice(["partition", "partition", "tree", "mixed"])
        for j in range(rng.randint(2, 3)):
            f = fam if fam != "mixed" else rng.choice(["partition", "tree", "finder"])
            mark = len(cases)
            if f == "partition":
                part = rng.choice(["labels", "labels", "kahypar"])
                if rng.random() < 0.6:
                    add("divide", {"partitioner": part, "kw": {"cutoff": rng.randint(2, 4), "parts": 2, "random_strength": rng.choice([0.01, 0.5])}}, _net(rng, 7, 11, plain=True))
                else:
                    add("agglom", {"partitioner": part, "kw": {"groupsize": rng.randint(2, 3), "random_strength": rng.choice([0.01, 0.5])}}, _net(rng, 7, 11, plain=True))
            elif f == "tree":
                k = rng.randrange(4)
                if k == 0:
                    add("tree_slice", {"kw": {"target_size": 2 ** rng.randint(1, 3), "temperature": 1.0}}, mid(), tree=True)
                elif k == 1:
                    add("reconf", {"kw": {"select": "random", "subtree_search": "random", "subtree_size": 3, "maxiter": rng.randint(2, 4)}}, mid(), tree=True)
                elif k == 2:
                    add("anneal", {"kw": {"tsteps": 2, "numiter": 2}}, mid(), tree=True)
                else:
                    add("temper", {"kw": {"tsteps": 2, "num_trees": 2, "numiter": 2}}, mid(), tree=True)
            else:
                k = rng.randrange(4)
                if k == 0:
                    add("rgreedy", {"max_repeats": rng.randint(2, 4)}, mid())
                elif k == 1:
                    add("random_opt", {}, mid())
                elif k == 2:
                    add("greedy_span", {"kw": {"start": "max", "temperature": 0.5}}, _net(rng, 6, 9, plain=True))
                else:
                    add("rand_equation", {"kw": {"n": rng.randint(3, 8), "reg": 3, "n_out": 1, "d_max": 4}})
            subs.append(cases.pop(mark))
        add("threads_interleaved", {"switch_p": rng.choice([0.02, 0.1, 0.3])})
        cases[-1]["subs"] = subs
    add("rand_equation", {"kw": {"n": rng.randint(3, 12), "reg": rng.randint(2, 4), "n_out": rng.randint(0, 2),
                                 "n_hyper_in": rng.randint(0, 2), "n_hyper_out": rng.randint(0, 1), "d_max": rng.randint(2, 5)}})
    add("randreg_equation", {"kw": {"n": rng.choice([6, 8, 10]), "reg": 3}})
    add("lattice_equation", {"dims": [rng.randint(2, 4), rng.randint(2, 3)], "kw": {"cyclic": rng.random() < 0.5, "d_max": 4}})
    add("rand_tree", {"kw": {"n": rng.randint(4, 9), "reg": 3, "n_out": rng.randint(0, 2)}})
    add("rand_size_dict", {"kw": {"d_min": 2, "d_max": 6}}, mid())
    add("arrays_from_inputs", {}, _net(rng, 3, 5))
    add("arrays_from_eq", {"eq": rng.choice(["ab,bc->ac", "abc,cd,de->abe"])})
    add("jitter_dict", {"strength": rng.choice([0.01, 1.0])}, mid())
    return cases


def gen_envs(rng, n=4):
    envs = []
    hs = [0, 1, 4242, rng.randrange(5, 2 ** 31)]
    for i in range(n):
        envs.append({"hashseed": hs[i % len(hs)], "global_seed": rng.randrange(2 ** 31), "predraws": rng.randint(0, 50),
                     "warmup_seed": rng.randrange(2 ** 31), "order_seed": rng.randrange(2 ** 31),
                     "drift_seed": rng.randrange(2 ** 31), "pool_seed": rng.randrange(2 ** 31)})
    return envs


def gen_case(prop, seed, tier):
    rng = prng.stream(seed, "cases")
    erng = prng.stream(seed, "envs")
    return {"seed": seed, "cases": gen_cases(rng), "envs": gen_envs(erng, 4)}


# ---------------------------------------------------------------------------


def run_env(env, cases):
    e = dict(os.environ)
    e["PYTHONHASHSEED"] = str(env["hashseed"])
    e["PYTHONWARNINGS"] = "ignore"
    for k in ("OMP_NUM_THREADS", "OPENBLAS_NUM_THREADS", "MKL_NUM_THREADS"):
        e[k] = "1"
    p = subprocess.run([sys.executable, WORKER], input=json.dumps({"env": env, "cases": cases}), env=e,
                       capture_output=True, text=True, timeout=CASE_TIMEOUT - 60)
    line = [l for l in p.stdout.splitlines() if l.startswith("RESULTS ")]
    if not line:
        raise RuntimeError(f"detenv worker produced no results (exit {p.returncode}): {p.stderr[-1500:]}")
    return json.loads(line[-1][8:])


def _shape_key(c):
    a = c.get("args", {})
    kw = a.get("kw", {})
    return (c["api"], bool(c.get("twice")), a.get("partitioner"), tuple(sorted(kw)) if isinstance(kw, dict) else None, bool(c.get("pool")),
            kw.get("select") if isinstance(kw, dict) else None, kw.get("subtree_search") if isinstance(kw, dict) else None)


def run_case(prop, case):
    from concurrent.futures import ThreadPoolExecutor

    log = EventLog()
    counters, faults = C(), C()
    states = set()
    violations = []
    cases = case["cases"]
    envs = case["envs"]
    with ThreadPoolExecutor(len(envs)) as ex:
        results = list(ex.map(lambda env: run_env(env, cases), envs))
    if len({e["hashseed"] for e in envs}) > 1:
        faults["env:hashseed_varied"] += 1
    faults["env:global_rng_perturbed"] += 1
    faults["env:history_and_order_varied"] += 1
    if any(c.get("pool") for c in cases):
        faults["env:pool_order_varied"] += 1
    ref = results[0]
    for c in cases:
        cid = c["id"]
        counters["api:" + c["api"]] += 1
        if c.get("twice"):
            counters["probe:twice_on_same_object"] += 1
        states.add(prng.H(_shape_key(c)))
        vals = [r.get(cid) for r in results]
        if ref.get(cid, "").startswith("EXC did-not-return"):
            counters["case_did_not_return:" + c["api"]] += 1
            # wall-clock cut-offs are not comparable between environments: skip this case
            continue
        if any(str(r.get(cid, "")).startswith("EXC did-not-return") for r in results):
            counters["case_did_not_return:" + c["api"]] += 1
            continue
        if ref.get(cid, "").startswith("EXC "):
            counters["case_raised:" + c["api"]] += 1
        if (c.get("twice") or c["api"] in ("object_interleaved", "reusable_rgreedy_history", "seeded_optimizer_via_interface", "threads_interleaved")) and not ref.get(cid, "").startswith("EXC "):
            try:
                same = json.loads(ref[cid]).get("same")
            except Exception:
                same = None
            if same is False:
                violations.append({
                    "oracle": "seeded-result-depends-on-history",
                    "detail": f"case {cid} (api {c['api']}, seed {c['seed']}, args {json.dumps(c.get('args'))[:200]}): the same seeded call gave different "
                              f"results depending on what ran before it (twice on one object / other seeded calls in between): {str(ref[cid])[:300]}",
                    "sig": {"api": c["api"], "pool": bool(c.get("pool")), "case": cid, "envs": [0, 0], "partitioner": None},
                })
                continue
        if any(v != vals[0] for v in vals):
            j = next(i for i, v in enumerate(vals) if v != vals[0])
            violations.append({
                "oracle": "seeded-result-depends-on-environment",
                "detail": f"case {cid} (api {c['api']}, seed {c['seed']}, args {json.dumps(c.get('args'))[:200]}): environment 0 "
                          f"(PYTHONHASHSEED={envs[0]['hashseed']}) -> {str(vals[0])[:160]} ; environment {j} "
                          f"(PYTHONHASHSEED={envs[j]['hashseed']}) -> {str(vals[j])[:160]}",
                "sig": {"api": c["api"], "pool": bool(c.get("pool")), "case": cid, "envs": [0, j],
                        "partitioner": c.get("args", {}).get("partitioner")},
            })
    log.add("results", ref)
    log.add("violations", [(v["oracle"], v["sig"]["case"]) for v in violations])
    sample = {"environments": envs, "cases": [{"id": c["id"], "api": c["api"], "seed": c["seed"], "args": c.get("args"),
                                               "tensors": len(c["net"]["inputs"]) if "net" in c else None} for c in cases[:12]],
              "n_cases": len(cases)}
    counters["case_evaluations"] += len(cases) * len(envs)
    return {"violations": violations, "digest": log.digest(), "counters": dict(counters), "faults": dict(faults),
            "states": list(states), "sim_seconds": 0.0, "nontrivial": True, "sample": sample}


def minimise(prop, case, v):
    """One case, two environments, then name the perturbation that matters."""
    cid = v["sig"]["case"]
    i, j = v["sig"]["envs"]
    if v["oracle"] == "seeded-result-depends-on-history":
        cs = [c for c in case["cases"] if c["id"] == cid]
        small = {"seed": case["seed"], "cases": cs, "envs": [case["envs"][0]]}
        r = run_case(prop, small)
        vv = [x for x in r["violations"] if x["oracle"] == v["oracle"]]
        return (small, vv[0]) if vv else (case, v)
    cs = [c for c in case["cases"] if c["id"] == cid]
    small = {"seed": case["seed"], "cases": cs, "envs": [case["envs"][i], case["envs"][j]]}
    r = run_case(prop, small)
    if not r["violations"]:
        # needs the other cases too (history dependent): keep all cases, two envs
        small = {"seed": case["seed"], "cases": case["cases"], "envs": [case["envs"][i], case["envs"][j]]}
        r = run_case(prop, small)
        if not r["violations"]:
            return case, v
        vv = [x for x in r["violations"] if x["sig"]["case"] == cid] or r["violations"]
        vv[0]["sig"]["needs_other_cases"] = True
        return small, vv[0]
    # which single perturbation suffices?
    a, b = small["envs"]
    cause = "combination"
    for name, keys in (("hashseed", ["hashseed"]), ("global-rng", ["global_seed", "predraws", "drift_seed"]),
                       ("history", ["warmup_seed", "order_seed"]), ("pool-order", ["pool_seed"])):
        b2 = dict(a)
        for k in keys:
            b2[k] = b[k]
        t = {"seed": case["seed"], "cases": cs, "envs": [a, b2]}
        rr = run_case(prop, t)
        if rr["violations"]:
            small, r, cause = t, rr, name
            break
    vv = r["violations"][0]
    vv["sig"]["perturbation"] = cause
    vv["sig"]["envs"] = [0, 1]
    return small, vv
