"""Engine `hyper` — HyperOptimizer under a simulated worker pool, virtual clock
and trial faults.  Serves C08.  DESIGN.md §4 C08.
"""

import copy
import json
import math
import pickle
import random
import warnings

from sim import clock as simclock
from sim import netgen, prng
from sim.pool import SimPool
from sim.trace import EventLog, canon

CASE_TIMEOUT = 180
LEVEL = {"C08": "exploration"}
PLAN = {"C08": {
    "quick": {"runs": 20000, "wall_cap": 110, "chunk": 50, "selftest": 8},
    "thorough": {"runs": 900000, "wall_cap": 1700, "chunk": 200, "selftest": 40},
}}
RULE = {"C08": (
    "one evaluation = one seeded run: random network (6-14 tensors), swarm-chosen method subset / objective / "
    "post-processing set / optlib / max_repeats / max_time / pool (none, thread-like, process-like; 1-6 workers, "
    "seeded task durations, slow worker) / trial-fault rate and kind (exception, BadTrial) / clock faults, then 1-2 "
    "consecutive search() calls on the real HyperOptimizer (the same network may come in other container types on a later search); invariants checked after each search and, for seeded "
    "optlib=random without max_time, refinement against the serial fault-free run of the same configuration. "
    "distinct_nontrivial counts distinct (completion-order Lehmer code, fault placement bitmap, pool mode, "
    "post-processing set, objective) tuples among runs that executed at least 2 trials."
)}
COMPONENTS = {
    "real": ["cotengra.hyperoptimizers.hyper (HyperOptimizer, ComputeScore, trial wrappers)", "hyper_random / hyper_cmaes optlibs",
             "greedy / random-greedy / labels / kahypar / random trial functions (called through wrappers that reseed the global RNGs from their kwargs)",
             "ContractionTree post-processing (slice_, subtree_reconfigure_, slice_and_reconfigure_, simulated_anneal_)", "cotengra.scoring"],
    "stub": ["worker pool -> sim.pool.SimPool", "time.time/sleep -> sim.clock.VirtualClock (tick per read, forward/backward jumps)"],
}
ASSUMPTIONS = {"C08": [
    "trial functions are wrapped (register_hyper_function seam) so that a trial's outcome is a pure function of its setting; the stock drivers draw from the global RNG",
    "injected trial faults are a deterministic function of (fault seed, setting), so the serial reference knows which settings were hit",
    "requests are feasible by construction (dims >= 2, allow_outer=True, target_size >= 1): a search that returns nothing although some trial was not fault-injected is a violation",
    "scores are compared within 1e-4 (ComputeScore adds a 1e-6 gaussian smudge whose stream depends on execution order)",
    "real loky/dask/ray pools are replaced by SimPool; their own bugs are out of reach",
]}
EXPECTED_PROBES = {"C08": ["probe:all_recorded_trials_failed_no_tree", "pool:out_of_order", "fault:trial_exception", "fault:trial_badtrial", "probe:cancelled_inflight",
                           "probe:second_search", "probe:postproc", "probe:reference_compared", "fault:clock_jump",
                           "probe:early_stop", "pool:mode:process", "pool:mode:thread", "fault:trial_objective",
                           "fault:poll_lag_batched_completions", "probe:simultaneous_completions", "probe:compressed_search", "probe:preemptive_task_switches", "pool:mode:thread-preemptive", "probe:on_trial_error_raise", "probe:second_instance_other_contraction", "fault:trial_exception-unpicklable"]}


def violation_class(v):
    return (v["oracle"],)


# ---------------------------------------------------------------------------
# trial-function wrappers (module level: picklable by reference)

_STATE = {"fault_seed": 0, "rate": 0.0, "obj_rate": 0.0, "kinds": ("exception",), "trace": [], "registered": False}

_REAL = {"sim-greedy-compressed": "greedy-compressed", "sim-greedy-span": "greedy-span", "sim-greedy": "greedy", "sim-random-greedy": "random-greedy", "sim-labels": "labels",
         "sim-kahypar": "kahypar", "sim-random": "random", "sim-labels-agglom": "labels-agglom",
         "sim-kahypar-agglom": "kahypar-agglom"}


class SolverError(Exception):
    """A third-party style exception that does not survive a pickle round trip (two required arguments)."""

    def __init__(self, code, msg):
        super().__init__(f"[{code}] {msg}")
        self.code = code


def setting_digest(method, kwargs):
    return prng.H(method, json.dumps(canon(kwargs), sort_keys=True))


def _fault_for(method, kwargs):
    d = setting_digest(method, kwargs)
    h = prng.H(_STATE["fault_seed"], d)
    if (h % 10000) < _STATE["rate"] * 10000:
        kinds = _STATE["kinds"]
        return d, kinds[(h // 10000) % len(kinds)]
    return d, None


def _make_wrapper(simname, realname):
    def wrapper(inputs, output, size_dict, **kwargs):
        from cotengra.hyperoptimizers import hyper as H
        from cotengra.utils import BadTrial

        d, fault = _fault_for(simname, kwargs)
        _STATE["trace"].append((d, fault))
        if fault == "exception":
            raise ValueError(f"injected trial fault {d}")
        if fault == "exception-unpicklable":
            raise SolverError(7, f"injected trial fault {d}")
        if fault == "badtrial":
            raise BadTrial(f"injected bad trial {d}")
        prng.reseed_globals(d)
        tree = H._PATH_FNS[realname](inputs, output, size_dict, **kwargs)
        tree._sim_digest = d  # lets a fault in the scoring step be attributed to this trial (travels with pickling)
        return tree

    wrapper.__name__ = wrapper.__qualname__ = "_wrap_" + simname.replace("-", "_")
    return wrapper


_wrap_sim_greedy = _make_wrapper("sim-greedy", "greedy")
_wrap_sim_random_greedy = _make_wrapper("sim-random-greedy", "random-greedy")
_wrap_sim_labels = _make_wrapper("sim-labels", "labels")
_wrap_sim_kahypar = _make_wrapper("sim-kahypar", "kahypar")
_wrap_sim_random = _make_wrapper("sim-random", "random")
_wrap_sim_labels_agglom = _make_wrapper("sim-labels-agglom", "labels-agglom")
_wrap_sim_kahypar_agglom = _make_wrapper("sim-kahypar-agglom", "kahypar-agglom")

_wrap_sim_greedy_compressed = _make_wrapper("sim-greedy-compressed", "greedy-compressed")
_wrap_sim_greedy_span = _make_wrapper("sim-greedy-span", "greedy-span")

_WRAPPERS = {
    "sim-greedy-compressed": _wrap_sim_greedy_compressed, "sim-greedy-span": _wrap_sim_greedy_span,
    "sim-greedy": _wrap_sim_greedy, "sim-random-greedy": _wrap_sim_random_greedy, "sim-labels": _wrap_sim_labels,
    "sim-kahypar": _wrap_sim_kahypar, "sim-random": _wrap_sim_random, "sim-labels-agglom": _wrap_sim_labels_agglom,
    "sim-kahypar-agglom": _wrap_sim_kahypar_agglom,
}


def _register():
    if _STATE["registered"]:
        return
    import cotengra  # noqa
    from cotengra.hyperoptimizers import hyper as H

    for simname, realname in _REAL.items():
        if realname not in H._PATH_FNS:
            continue
        H.register_hyper_function(simname, _WRAPPERS[simname], dict(H._HYPER_SEARCH_SPACE[realname]),
                                  dict(H._HYPER_CONSTANTS[realname]))
    _STATE["registered"] = True


def custom_objective(trial):
    """A well-behaved user objective (module level so it pickles)."""
    from cotengra.scoring import get_score_fn

    return get_score_fn("flops")(trial) + 0.5 * math.log2(trial["tree"].max_size() + 1)


def custom_objective_faulty(trial):
    """User objective that fails for some trees (fault site: the scoring step).
    Which trees is a function of (fault seed, tree), so the serial reference
    knows; the failure is recorded against the trial that was just built."""
    from cotengra.scoring import get_score_fn

    d = getattr(trial["tree"], "_sim_digest", None)
    if _STATE["obj_rate"] > 0 and d is not None:
        if (prng.H(_STATE["fault_seed"], "objective", d) % 10000) < _STATE["obj_rate"] * 10000:
            _STATE["trace"].append((d, "objective"))
            raise ArithmeticError(f"injected objective fault {d}")
    return get_score_fn("flops")(trial) + 0.5 * math.log2(trial["tree"].max_size() + 1)


# ---------------------------------------------------------------------------
# generation

METHOD_POOL = ["sim-greedy", "sim-random-greedy", "sim-labels", "sim-kahypar", "sim-random", "sim-labels-agglom"]
# bounded liveness: a search must return within this much CPU time of the worker (normal searches take milliseconds)
SEARCH_CPU_LIMIT = 25.0


class _SearchDidNotReturn(BaseException):
    pass


def _on_vtalrm(signum, frame):
    raise _SearchDidNotReturn()
OBJECTIVES = ["flops", "size", "write", "combo", "combo-32", "limit", "limit-8", "custom", "custom-faulty"]


def gen_case(prop, seed, tier):
    sw = prng.stream(seed, "swarm")
    net_rng = prng.stream(seed, "net")
    feat = {"hyper": sw.random() < 0.4, "out_hyper": sw.random() < 0.3, "out_edge": sw.random() < 0.2,
            "dangling_sum": sw.random() < 0.2, "repeated": sw.random() < 0.15, "outer": sw.random() < 0.1}
    inputs, output, size_dict = netgen.gen_network(net_rng, n_min=5, n_max=sw.choice([8, 10, 14]), max_inds=24,
                                                   dims=sw.choice([(2,), (2, 3), (2, 3, 4)]), max_rank=5,
                                                   space_cap=2 ** 60, feat=feat)
    k = sw.randint(1, 3)
    methods = sw.sample(METHOD_POOL, k)
    post = {}
    r = sw.random()
    if r < 0.35:
        pass
    else:
        if sw.random() < 0.35:
            post["slicing_opts"] = sw.choice([{"target_size": 2 ** sw.randint(1, 5)}, {"target_slices": sw.choice([2, 4])},
                                              {"target_size": 2 ** sw.randint(2, 6), "max_repeats": 2}])
        if sw.random() < 0.35:
            ro = {"subtree_size": sw.randint(2, 5), "maxiter": sw.randint(1, 4)}
            if sw.random() < 0.3:
                ro = {"forested": True, "num_trees": 2, "num_restarts": 1, "subtree_maxiter": 2, "subtree_size": sw.randint(2, 4)}
            post["reconf_opts"] = ro
        if sw.random() < 0.3:
            sro = {"target_size": 2 ** sw.randint(1, 5), "max_repeats": 2,
                   "reconf_opts": {"subtree_size": sw.randint(2, 4), "maxiter": 2}}
            if sw.random() < 0.25:
                sro["forested"] = True
                sro["num_trees"] = 2
            post["slicing_reconf_opts"] = sro
        if sw.random() < 0.3:
            sa = {"tsteps": sw.randint(1, 2), "numiter": sw.randint(1, 3)}
            if sw.random() < 0.4:
                sa["target_size"] = 2 ** sw.randint(1, 5)
            post["simulated_annealing_opts"] = sa
    # a number of slices the network cannot have is an infeasible request (every trial fails by design)
    so = post.get("slicing_opts")
    if so and "target_slices" in so:
        space = netgen.index_space(size_dict)
        while so["target_slices"] > 1 and so["target_slices"] > space:
            so["target_slices"] //= 2
        if so["target_slices"] <= 1:
            post.pop("slicing_opts")
    # at most one slicing mechanism per configuration: stacking them asks the later one to slice a tree
    # that may already have nothing left to slice (an infeasible request, not a defect)
    if "slicing_reconf_opts" in post:
        post.pop("slicing_opts", None)
        if "simulated_annealing_opts" in post:
            post["simulated_annealing_opts"].pop("target_size", None)
    elif "slicing_opts" in post and "simulated_annealing_opts" in post:
        post["simulated_annealing_opts"].pop("target_size", None)
    minimize = sw.choice(OBJECTIVES)
    if minimize in ("custom", "custom-faulty"):
        # a plain callable objective has no score_local / score_slice_index /
        # get_dynamic_programming_minimize: post-processing is not offered for it
        post = {}
    pool = None
    if sw.random() < 0.7:
        pool = {"workers": sw.randint(1, 6), "mode": sw.choice(["thread", "thread", "thread", "process", "process", "process", "thread-preemptive"]), "seed": sw.randrange(2 ** 31),
                "switch_p": sw.choice([0.01, 0.05, 0.2]),
                "slow": sw.random() < 0.3, "grid": sw.choice([None, None, 0.25]), "poll_lag": sw.choice([0.0, 0.0, 0.3, 0.8])}
    optlib = sw.choice(["random", "random", "random", "cmaes"])
    if optlib == "cmaes":
        # cmaes cannot be built over an empty parameter space (constructor asserts at once)
        methods = [m for m in methods if m != "sim-random"] or ["sim-greedy"]
    max_time = sw.choice([None, None, None, 0.5, 5.0, "rate:1e3", "rate:1e6", "equil:2"])
    fault_rate = sw.choice([0.0, 0.0, 0.15, 0.3, 0.6])
    compressed = sw.random() < 0.12
    if compressed:
        # compressed contraction trees: ordinary networks only, no slicing / annealing post-processing
        while True:
            inputs, output, size_dict = netgen.gen_network(net_rng, n_min=5, n_max=10, max_inds=24, dims=(2, 3, 4), max_rank=4,
                                                           space_cap=2 ** 60, feat={"out_edge": False})
            if netgen.is_connected(inputs) and all(len(t) > 0 for t in inputs):
                break  # the compressed path finders are specified for connected ordinary networks
        methods = sw.sample(["sim-greedy-compressed", "sim-greedy-span"], sw.randint(1, 2))
        minimize = sw.choice(["peak-compressed", "size-compressed", "peak-compressed-4", "flops-compressed-8", "write-compressed-4"])
        post = {"reconf_opts": {"window_size": 4, "max_iterations": 3, "max_window_tries": 10}} if sw.random() < 0.3 else {}
        optlib = "random"
    case = {
        "seed": seed,
        "net": {"inputs": inputs, "output": output, "size_dict": size_dict},
        "methods": methods,
        "minimize": minimize,
        "post": post,
        "max_repeats": sw.randint(1, 16),
        "max_time": max_time,
        "optlib": optlib,
        "opt_seed": sw.randrange(2 ** 31),
        "on_trial_error": sw.choice(["warn", "ignore", "raise"]),
        "max_training_steps": sw.choice([None, None, 3]),
        "pool": pool,
        "fault": {"seed": sw.randrange(2 ** 31), "rate": fault_rate,
                  "kinds": sw.choice([["exception"], ["badtrial"], ["exception", "badtrial"], ["exception-unpicklable"],
                                      ["exception", "exception-unpicklable", "badtrial"]])},
        "tick": sw.choice([0.0, 0.001, 0.05]),
        "clock_jumps": [[sw.randint(1, 40), sw.choice([-30.0, -1.0, 2.0, 100.0])] for _ in range(sw.choice([0, 0, 1, 2]))],
        "searches": sw.choice([1, 1, 2]),
        "arg_containers": [sw.choice(["tuple", "tuple", "list", "mixed"]) for _ in range(2)],
        # afterwards a SECOND optimizer object (same configuration, same pool) searches a different contraction
        "second_instance": sw.random() < 0.25 and not compressed,
        "compressed": compressed,
    }
    if case["pool"] is not None and case["pool"]["mode"] == "thread-preemptive":
        # a trial that never returns cannot be cut inside a simulated thread (the CPU-time watchdog lives in the main thread)
        case["methods"] = [m for m in case["methods"] if m != "sim-labels-agglom"] or ["sim-greedy"]
    if case["on_trial_error"] == "raise":
        # 'raise' re-raises ordinary trial errors by design; BadTrial must still only discard the trial.
        # So the only faults injected under 'raise' are BadTrial ones (and none in the objective).
        case["fault"]["kinds"] = ["badtrial"]
        if case["minimize"] == "custom-faulty":
            case["minimize"] = "custom"
    return case


# ---------------------------------------------------------------------------


def _mk_opt(ctg, case, pool, faulty):
    from cotengra.hyperoptimizers.hyper import HyperCompressedOptimizer, HyperOptimizer

    minimize = case["minimize"]
    if minimize == "custom":
        minimize = custom_objective
    elif minimize == "custom-faulty":
        minimize = custom_objective_faulty
    kw = dict(methods=list(case["methods"]), minimize=minimize, max_repeats=case["max_repeats"],
              max_time=case["max_time"], parallel=pool if pool is not None else False, optlib=case["optlib"],
              on_trial_error=case["on_trial_error"], max_training_steps=case["max_training_steps"], progbar=False,
              seed=case["opt_seed"])
    for k, v in case["post"].items():
        kw[k] = copy.deepcopy(v)
    if case.get("compressed"):
        return HyperCompressedOptimizer(**kw)
    return HyperOptimizer(**kw)


_PRE_WL = {
    "hyper.py": None,
    "core.py": {"contract_stats", "subtree_reconfigure", "subtree_reconfigure_forest", "slice", "slice_and_reconfigure",
                "slice_and_reconfigure_forest", "remove_ind", "restore_ind", "copy", "set_state_from", "_remove_node", "_update_tracked",
                "total_flops", "total_write", "max_size", "_reconfigure_tree", "_slice_and_reconfigure_tree", "_get_tree_info"},
    "path_simulated_annealing.py": {"simulated_anneal_tree", "parallel_temper_tree", "_do_anneal", "_score_tree"},
    "scoring.py": {"__call__", "ensure_basic_quantities_are_computed"},
}


def _preempt_whitelist(base, name, full):
    if "cotengra" not in full or base not in _PRE_WL:
        return False
    names = _PRE_WL[base]
    return names is None or name in names


def _records(opt, start=0):
    """Per-trial records (digest, flops, write, size, score) from index start."""
    from cotengra.hyperoptimizers.hyper import get_hyper_constants

    consts = get_hyper_constants()
    out = []
    for i in range(start, len(opt.scores)):
        m = opt.method_choices[i]
        kw = dict(opt.param_choices[i])
        kw.update(consts[m])
        out.append({"i": i, "method": m, "digest": setting_digest(m, kw), "flops": opt.costs_flops[i],
                    "write": opt.costs_write[i], "size": opt.costs_size[i], "score": opt.scores[i]})
    return out


def _lehmer(order):
    """Lehmer code of a completion order as a compact int (order = list of task ids)."""
    code = 0
    for i, x in enumerate(order):
        c = sum(1 for y in order[i + 1:] if y < x)
        code = code * 31 + c
    return code % (2 ** 61)


def _run_once(ctg, case, use_pool, use_faults, log, counters, faults, with_clock_faults, after_search=None):
    """Run the case's searches. Returns dict with per-search results."""
    _STATE["fault_seed"] = case["fault"]["seed"]
    _STATE["rate"] = case["fault"]["rate"] if use_faults else 0.0
    _STATE["obj_rate"] = (case["fault"].get("obj_rate", 0.25) if case["minimize"] == "custom-faulty" else 0.0) if use_faults else 0.0
    _STATE["kinds"] = tuple(case["fault"]["kinds"])
    _STATE["trace"] = []
    clk = simclock.VirtualClock()
    tick = case.get("tick", 0.0) if with_clock_faults else 0.0
    jumps = {int(k): float(d) for k, d in case.get("clock_jumps", [])} if with_clock_faults else {}

    def on_read(c):
        if tick:
            c.now += tick
            c.run_due()
        d = jumps.get(c.reads)
        if d is not None:
            c.jump(d)
            faults["fault:clock_jump"] += 1

    clk.on_read = on_read
    pool = None
    if use_pool and case["pool"] is not None:
        spec = case["pool"]
        prg = random.Random(spec["seed"])
        speed = None
        if spec.get("slow"):
            speed = [1.0] * spec["workers"]
            speed[prg.randrange(spec["workers"])] = 50.0
            faults["fault:slow_worker"] += 1
        pool = SimPool(clk, workers=spec["workers"], mode=spec["mode"], rng=prg, speed=speed, grid=spec.get("grid"))
        lag = spec.get("poll_lag", 0.0)
        if lag:
            lrng = random.Random(spec["seed"] + 1)

            def oversleep():
                n = 0
                while lrng.random() < lag and n < 6:
                    n += 1
                if n:
                    faults["fault:poll_lag_batched_completions"] += 1
                return n

            clk.oversleep = oversleep
    net = case["net"]
    inputs = tuple(tuple(t) for t in net["inputs"])
    output = tuple(net["output"])
    size_dict = dict(net["size_dict"])
    results = []
    sched = None
    if use_pool and case["pool"] is not None and case["pool"]["mode"] == "thread-preemptive":
        # a real THREAD pool: tasks are simulated threads sharing objects, interleaved at line granularity
        from sim import threads as simthreads

        spec = case["pool"]
        sched = simthreads.Scheduler(simthreads.WalkChooser(random.Random(spec["seed"]), spec.get("switch_p", 0.05)), _preempt_whitelist,
                                     max_points=5_000_000)
        pool = simthreads.PreemptivePool(sched, spec["workers"])
        clk.oversleep = None
        clk.sleep_hook = lambda: sched.yield_now(sched.index_of_current())
    holder = {}

    def body():
      with simclock.activate(clk):
        prng.reseed_globals(prng.H(case["seed"], "hyper-init"))
        opt = _mk_opt(ctg, case, pool, use_faults)
        holder["opt"] = opt
        for s in range(case["searches"]):
            n_before = len(opt.scores)
            sub_before = pool.stats["submitted"] if pool is not None else 0
            tr_before = len(_STATE["trace"])
            res = {"raised": None, "tree": None, "warn": []}
            with warnings.catch_warnings(record=True) as wlist:
                warnings.simplefilter("always")
                try:
                    if sched is None:
                        import signal

                        signal.signal(signal.SIGVTALRM, _on_vtalrm)
                        signal.setitimer(signal.ITIMER_VIRTUAL, SEARCH_CPU_LIMIT)
                    try:
                        # the same contraction may be handed over in other (equivalent) containers on a later search
                        ct = (case.get("arg_containers") or ["tuple"])[s % len(case.get("arg_containers") or ["tuple"])]
                        if ct == "list":
                            args = ([list(t) for t in inputs], list(output), dict(size_dict))
                        elif ct == "mixed":
                            args = (tuple(list(t) for t in inputs), list(output), dict(size_dict))
                        else:
                            args = (inputs, output, size_dict)
                        res["tree"] = opt.search(*args)
                    finally:
                        if sched is None:
                            signal.setitimer(signal.ITIMER_VIRTUAL, 0)
                except _SearchDidNotReturn:
                    res["raised"] = TimeoutError(f"search did not return within {SEARCH_CPU_LIMIT} s of CPU time")
                    res["hung"] = True
                except Exception as e:
                    res["raised"] = e
                res["warn"] = [str(w.message)[:200] for w in wlist if "Trial error" in str(w.message)]
            res["n_before"] = n_before
            res["n_after"] = len(opt.scores)
            res["submitted"] = (pool.stats["submitted"] - sub_before) if pool is not None else None
            res["trace"] = list(_STATE["trace"][tr_before:])
            res["records"] = _records(opt, n_before)
            res["best"] = dict(opt.best)
            results.append(res)
            if after_search is not None:
                after_search(opt, pool, s, res)
            if res["raised"] is not None:
                break
        if case.get("second_instance") and use_faults:
            # a second optimizer object (same configuration, same pool) asks about ANOTHER contraction
            inputs2 = tuple(reversed(inputs))
            output2 = tuple(reversed(output))
            sec = {"raised": None, "tree": None}
            try:
                opt2 = _mk_opt(ctg, case, pool, use_faults)
                n0 = len(_STATE["trace"])
                with warnings.catch_warnings():
                    warnings.simplefilter("ignore")
                    sec["tree"] = opt2.search(inputs2, output2, size_dict)
                sec["scores"] = list(opt2.scores)
                sec["best_score"] = opt2.best.get("score")
            except Exception as e:
                sec["raised"] = e
                sec["injected_all"] = all(t[1] is not None for t in _STATE["trace"][n0:]) if "n0" in dir() else False
            sec["inputs"], sec["output"] = inputs2, output2
            holder["second"] = sec

    if sched is None:
        body()
    else:
        errs = sched.run([body], [1], [None])
        if errs and errs[0] is not None:
            raise errs[0]
        counters["probe:preemptive_task_switches"] += sched.switches
    return {"opt": holder["opt"], "pool": pool, "results": results, "clk": clk, "second": holder.get("second")}


def _stats_of(tree):
    t = copy.deepcopy(tree)
    return dict(t.contract_stats())


def run_case(prop, case):
    import cotengra as ctg
    from sim import seams as _seams

    _seams.hermetic_reset()

    _register()
    log = EventLog()

    class C(dict):
        def __missing__(self, k):
            return 0

    counters, faults = C(), C()
    violations = []
    states = set()
    net = case["net"]
    inputs = tuple(tuple(t) for t in net["inputs"])
    output = tuple(net["output"])
    size_dict = dict(net["size_dict"])
    log.add("case", case["seed"], net["inputs"], net["output"], net["size_dict"], case["methods"], case["minimize"],
            case["post"], case["pool"], case["max_repeats"], case["max_time"], case["optlib"])

    def V(oracle, detail, **sig):
        s = {"minimize": case["minimize"], "post": sorted(case["post"]), "pool": None if case["pool"] is None else case["pool"]["mode"]}
        s.update(sig)
        violations.append({"oracle": oracle, "detail": detail, "sig": s})

    tot = [0]
    pending_no_tree = []
    pending_raise = []

    def after_search(opt, pool, si, res):
        recs = res["records"]
        tot[0] += len(recs)
        injected = [t for t in res["trace"] if t[1] is not None]
        executed = sum(1 for t in res["trace"] if t[1] != "objective")
        for t in injected:
            faults["fault:trial_" + t[1]] += 1
        log.add("search", si, [(r["digest"], r["flops"], r["write"], r["size"]) for r in recs],
                None if res["raised"] is None else type(res["raised"]).__name__)
        if si == 1:
            counters["probe:second_search"] += 1
        if res["raised"] is not None:
            e = res["raised"]
            no_tree = isinstance(e, KeyError) and e.args == ("tree",)
            if res.get("hung"):
                V("search-did-not-return", f"search #{si}: {e} (methods {case['methods']}, {len(inputs)} tensors); trials executed so far={executed}",
                  methods=sorted(case["methods"]))
            elif not no_tree and case["on_trial_error"] == "raise" and not type(e).__name__ == "BadTrial":
                # by design 'raise' re-raises a trial's own error: judged against the fault-free serial run below
                pending_raise.append((si, e))
            elif not no_tree:
                V("search-raised", f"search #{si} raised {type(e).__name__}: {e}; trials executed={executed}, "
                  f"fault-injected={len(injected)}; trial errors: {res['warn'][:2]}",
                  error=type(e).__name__, trial_error=(res["warn"][0][:60] if res["warn"] else None))
            else:
                # no trial produced a tree. Judged below against the serial
                # fault-free run of the same configuration.
                pending_no_tree.append((si, executed, len(injected), res["warn"][:2]))
            return
        tree = res["tree"]
        n_new = res["n_after"] - res["n_before"]
        if n_new > case["max_repeats"]:
            V("too-many-trials", f"search #{si} recorded {n_new} trials > max_repeats={case['max_repeats']}")
        if res["submitted"] is not None and res["submitted"] > case["max_repeats"]:
            V("too-many-trials", f"search #{si} submitted {res['submitted']} tasks > max_repeats={case['max_repeats']}")
        if pool is None and executed > case["max_repeats"]:
            V("too-many-trials", f"search #{si} executed {executed} trial functions > max_repeats={case['max_repeats']}")
        if n_new < case["max_repeats"]:
            counters["probe:early_stop"] += 1
        lens = {len(opt.scores), len(opt.costs_flops), len(opt.costs_write), len(opt.costs_size),
                len(opt.method_choices), len(opt.param_choices), len(opt.times)}
        if len(lens) != 1:
            V("record-lengths-differ", f"lengths {sorted(lens)}")
        if tree is not opt.best.get("tree"):
            V("returned-not-best", "search() did not return opt.best['tree']")
        # the tree itself
        try:
            ok_complete = tree.is_complete()
        except Exception as e:
            ok_complete = False
        if not ok_complete:
            V("tree-incomplete", "returned tree is not complete")
            return
        if tuple(map(tuple, tree.inputs)) != inputs or tuple(tree.output) != output or dict(tree.size_dict) != size_dict:
            V("tree-of-other-contraction", f"tree.inputs/output/size_dict differ from the query")
            return
        # best == min over all trials ever recorded by this optimizer
        finite = [s for s in opt.scores if s < float("inf")]
        if finite:
            if opt.best["score"] != min(opt.scores):
                V("best-not-minimum", f"best score {opt.best['score']} != min(scores) {min(opt.scores)}")
        for r in recs:
            was_injected = any(t[0] == r["digest"] and t[1] is not None for t in res["trace"])
            if was_injected and not (r["score"] == float("inf") and r["flops"] == float("inf")):
                V("failed-trial-not-inf", f"fault-injected trial {r['i']} recorded score {r['score']} flops {r['flops']}")
        if case.get("compressed"):
            counters["probe:compressed_search"] += 1
            # compressed estimates are not the tree's exact figures: only the score of the returned tree is recomputed
            try:
                raw = opt.objective({"tree": copy.deepcopy(tree)})
                want = raw ** opt.score_compression
                if abs(want - opt.best["score"]) > 1e-4 * max(1.0, abs(want)):
                    V("best-score-not-tree-score", f"objective(returned tree)**c = {want} but best score = {opt.best['score']}")
            except Exception as e:
                V("objective-raised-on-returned-tree", f"{type(e).__name__}: {e}")
            return
        # recorded figures of the winner == the returned tree's own figures
        st = _stats_of(tree)
        for q in ("flops", "write", "size"):
            if opt.best.get(q) != st[q]:
                V("best-figures-differ-from-tree", f"opt.best[{q!r}]={opt.best.get(q)} but returned tree reports {st[q]} "
                  f"(post-processing {sorted(case['post'])})", field=q)
        if finite:
            am = min(range(len(opt.scores)), key=opt.scores.__getitem__)
            if opt.scores.count(opt.scores[am]) == 1:
                bp = dict(opt.best.get("params", {}))
                want = dict(opt.param_choices[am])
                want["method"] = opt.method_choices[am]
                if bp != want:
                    V("best-params-of-another-trial", f"opt.best['params']={bp} but the arg-min trial #{am} was run with {want}")
            rec = (opt.costs_flops[am], opt.costs_write[am], opt.costs_size[am])
            if rec != (st["flops"], st["write"], st["size"]):
                V("trial-record-differs-from-tree", f"costs_*[argmin scores]={rec} but returned tree reports "
                  f"{(st['flops'], st['write'], st['size'])}")
        try:
            t2 = pickle.loads(pickle.dumps(tree))
            st2 = dict(t2.contract_stats())
            if st2 != st:
                V("pickle-roundtrip-changes-figures", f"{st2} != {st}")
        except Exception as e:
            V("pickle-roundtrip-raised", f"{type(e).__name__}: {e}")
        # score of the returned tree, recomputed independently of the trial record
        try:
            raw = opt.objective({"tree": copy.deepcopy(tree)})
            want = raw ** opt.score_compression
            if abs(want - opt.best["score"]) > 1e-4 * max(1.0, abs(want)):
                V("best-score-not-tree-score", f"objective(returned tree)**c = {want} but best score = {opt.best['score']}")
        except Exception as e:
            V("objective-raised-on-returned-tree", f"{type(e).__name__}: {e}")
        if case["post"]:
            counters["probe:postproc"] += 1
        # slicing targets honoured by the winner when requested
        if "slicing_opts" in case["post"] and "target_size" in case["post"]["slicing_opts"] and len(case["post"]) == 1:
            if st["size"] > case["post"]["slicing_opts"]["target_size"]:
                V("winner-breaks-slicing-target", f"size {st['size']} > target {case['post']['slicing_opts']['target_size']}")


    if case["on_trial_error"] == "raise":
        counters["probe:on_trial_error_raise"] += 1
    sim = _run_once(ctg, case, True, True, log, counters, faults, True, after_search=after_search)
    opt, pool = sim["opt"], sim["pool"]
    total_trials = tot[0]

    sec = sim.get("second")
    if sec is not None and not violations:
        counters["probe:second_instance_other_contraction"] += 1
        if sec["raised"] is None:
            t2 = sec["tree"]
            if tuple(map(tuple, t2.inputs)) != sec["inputs"] or tuple(t2.output) != sec["output"]:
                V("tree-of-other-contraction", "a second optimizer object (same configuration and pool) was asked about another contraction and "
                  f"returned a tree whose inputs/output are not the queried ones (N={t2.N} vs {len(sec['inputs'])} tensors queried)", second_instance=True)
            elif not t2.is_complete():
                V("tree-incomplete", "second optimizer object returned an incomplete tree", second_instance=True)
            elif sec["scores"] and sec["best_score"] != min(sec["scores"]):
                V("best-not-minimum", f"second optimizer object: best {sec['best_score']} != min(scores) {min(sec['scores'])}", second_instance=True)
        elif isinstance(sec["raised"], KeyError) and sec["raised"].args == ("tree",):
            counters["probe:second_instance_no_tree"] += 1
        elif case["on_trial_error"] != "raise":
            V("search-raised", f"second optimizer object raised {type(sec['raised']).__name__}: {sec['raised']}", second_instance=True,
              error=type(sec["raised"]).__name__)

    if pool is not None:
        counters["pool:mode:" + pool.mode] += 1
        for k in ("out_of_order", "cancelled", "submitted", "completed", "max_inflight"):
            counters["pool:" + k] += pool.stats[k]
        if pool.stats["cancelled"]:
            counters["probe:cancelled_inflight"] += 1
        if pool.stats["batched"]:
            counters["probe:simultaneous_completions"] += pool.stats["batched"]
        if pool.stats["out_of_order"]:
            faults["fault:completion_reordered"] += 1

    if pending_raise and not violations:
        si, e = pending_raise[0]
        c2 = copy.deepcopy(case)
        ref0 = _run_once(ctg, c2, False, False, log, C(), C(), False)
        r0 = ref0["results"][min(si, len(ref0["results"]) - 1)]
        by_design = r0["raised"] is not None and type(r0["raised"]) is type(e)
        if not by_design and type(e).__name__ != "BadTrial":
            # (an injected BadTrial coming out of search() is never by design: BadTrial must merely discard the trial)
            # the pool may have executed a trial the serial run never reaches: does the SAME simulated run (pool, faults,
            # schedule) go through when trial errors are skipped?  Then the exception came out of a trial (its own
            # failure, surfaced as on_trial_error='raise' documents) and not out of the search machinery.
            c3 = copy.deepcopy(case)
            c3["on_trial_error"] = "ignore"
            try:
                r3 = _run_once(ctg, c3, True, True, log, C(), C(), True)["results"]
                r3 = r3[min(si, len(r3) - 1)]["raised"]
                by_design = r3 is None or (isinstance(r3, KeyError) and r3.args == ("tree",))
            except Exception:
                by_design = False
        if by_design:
            counters["probe:own_trial_error_reraised_by_design"] += 1
        else:
            V("search-raised", f"search #{si} raised {type(e).__name__}: {e} under on_trial_error='raise' although the fault-free serial "
              f"run does not (only BadTrial faults were injected, which must merely discard the trial)", error=type(e).__name__)

    # ---- a search that produced no tree: is the configuration itself broken? --
    if pending_no_tree and not violations:
        si, executed, ninj, warn = pending_no_tree[0]
        c2 = copy.deepcopy(case)
        c2["searches"] = 1
        ref0 = _run_once(ctg, c2, False, False, log, C(), C(), False)
        r0 = ref0["results"][0]
        if r0["raised"] is not None and case["on_trial_error"] == "raise" and not (
                isinstance(r0["raised"], KeyError) and r0["raised"].args == ("tree",)):
            # on_trial_error='raise' asks for a trial's own exception to surface; is the request feasible at all, i.e.
            # does the same fault-free serial search find a tree when failed trials are skipped?
            c3 = copy.deepcopy(c2)
            c3["on_trial_error"] = "ignore"
            r1 = _run_once(ctg, c3, False, False, log, C(), C(), False)["results"][0]
            if r1["raised"] is None:
                counters["probe:own_trial_error_reraised_by_design"] += 1
                r0 = None
        if r0 is None:
            pass
        elif r0["raised"] is not None:
            e = r0["raised"]
            V("search-raised", f"search raised {type(e).__name__}: {e} even serially and without any injected fault "
              f"({len(r0['trace'])} trials executed); under simulation: executed={executed}, fault-injected={ninj}; "
              f"trial errors: {(r0['warn'] or warn)[:2]}",
              error=type(e).__name__, trial_error=((r0["warn"] or warn or [None])[0] or "")[:60])
        else:
            counters["probe:all_recorded_trials_failed_no_tree"] += 1
            # every *recorded* trial failed; were any of them failures that do not happen serially?
            res = sim["results"][si]
            inj = {t[0] for t in res["trace"] if t[1] is not None}
            okref = {r["digest"] for r in r0["records"] if r["score"] < float("inf")}
            for r in res["records"]:
                if r["digest"] not in inj and r["digest"] in okref:
                    V("trial-failed-only-under-simulation",
                      f"search #{si} trial {r['i']} ({r['method']}) failed without injection but succeeds serially")
                    break

    # ---- oracle 2: refinement against the serial fault-free reference ----------
    preemptive = case["pool"] is not None and case["pool"]["mode"] == "thread-preemptive"
    # (with genuinely interleaved tasks the shared global RNG makes a trial depend on the schedule: invariants only)
    comparable = (not preemptive and case["optlib"] == "random" and case["max_time"] is None and not violations
                  and all(r["raised"] is None for r in sim["results"]))
    if comparable:
        ref = _run_once(ctg, case, False, False, log, C(), C(), False)
        ok_ref = all(r["raised"] is None for r in ref["results"])
        if ok_ref:
            counters["probe:reference_compared"] += 1
            for si, (a, b) in enumerate(zip(sim["results"], ref["results"])):
                refmap = {}
                for r in b["records"]:
                    refmap.setdefault(r["digest"], []).append(r)
                surviving_scores = []
                for r in a["records"]:
                    if r["score"] == float("inf"):
                        continue
                    cands = refmap.get(r["digest"], [])
                    hit = None
                    for c in cands:
                        if (c["flops"], c["write"], c["size"]) == (r["flops"], r["write"], r["size"]) and abs(c["score"] - r["score"]) <= 1e-4:
                            hit = c
                            break
                    if hit is None:
                        V("trial-differs-from-serial-reference",
                          f"search #{si} trial {r['i']} ({r['method']}) recorded flops/write/size/score "
                          f"{(r['flops'], r['write'], r['size'], r['score'])}; serial fault-free run of the same setting: "
                          f"{[(c['flops'], c['write'], c['size'], c['score']) for c in cands]}")
                        break
                    cands.remove(hit)
                    surviving_scores.append(hit["score"])
                # failed in the simulated run but not injected and fine in the reference?
                inj = {t[0] for t in a["trace"] if t[1] is not None}
                for r in a["records"]:
                    if r["score"] == float("inf") and r["digest"] not in inj:
                        refok = [c for c in b["records"] if c["digest"] == r["digest"] and c["score"] < float("inf")]
                        if refok:
                            V("trial-failed-only-under-simulation",
                              f"search #{si} trial {r['i']} ({r['method']}) failed without injection but succeeds serially")
                            break
                if surviving_scores and not violations and si == len(sim["results"]) - 1:
                    allsurv = []
                    for sj in range(si + 1):
                        pass
                inj_so_far = any(t[1] is not None for x in sim["results"][: si + 1] for t in x["trace"])
                same_lengths = all(len(x["records"]) == len(y["records"]) for x, y in zip(sim["results"][: si + 1], ref["results"][: si + 1]))
                if not violations and same_lengths and not inj_so_far:
                    if abs(a["best"]["score"] - b["best"]["score"]) > 1e-4:
                        V("winner-differs-from-serial-reference",
                          f"search #{si}: best score {a['best']['score']} vs serial {b['best']['score']}")
        log.add("ref", [[(r["digest"], r["flops"]) for r in x["records"]] for x in ref["results"]])

    # ---- coverage key ------------------------------------------------------------
    if total_trials >= 2:
        order = pool.completion_order if pool is not None else list(range(total_trials))
        fmap = tuple(1 if t[1] else 0 for res in sim["results"] for t in res["trace"])
        states.add(prng.H(_lehmer(order), fmap, None if pool is None else pool.mode, sorted(case["post"]), case["minimize"]))
    for v in violations:
        pass
    log.add("violations", [(v["oracle"], v["detail"]) for v in violations])
    sample = {"tensors": len(inputs), "methods": case["methods"], "minimize": case["minimize"], "post": case["post"],
              "pool": case["pool"], "max_repeats": case["max_repeats"], "max_time": case["max_time"],
              "optlib": case["optlib"], "fault": case["fault"],
              "completion_order": (pool.completion_order if pool is not None else "serial"),
              "interesting": pool is not None and pool.stats["out_of_order"] > 0 and case["fault"]["rate"] > 0}
    return {"violations": violations, "digest": log.digest(), "counters": dict(counters), "faults": dict(faults),
            "states": list(states), "sim_seconds": sim["clk"].now, "nontrivial": total_trials >= 2, "sample": sample}


# ---------------------------------------------------------------------------


def minimise(prop, case, v):
    cls = violation_class(v)
    budget = [60]

    def fails(c):
        if budget[0] <= 0:
            return False
        budget[0] -= 1
        try:
            r = run_case(prop, c)
        except Exception:
            return False
        return any(violation_class(x) == cls for x in r["violations"])

    cur = copy.deepcopy(case)
    if not fails(cur):
        return case, v

    def attempt(mut):
        nonlocal cur
        c = copy.deepcopy(cur)
        mut(c)
        if c != cur and fails(c):
            cur = c
            return True
        return False

    attempt(lambda c: c.update(searches=1))
    attempt(lambda c: c.update(clock_jumps=[]))
    attempt(lambda c: c.update(tick=0.0))
    attempt(lambda c: c["fault"].update(rate=0.0))
    attempt(lambda c: c.update(pool=None))
    attempt(lambda c: c.update(max_time=None))
    attempt(lambda c: c.update(max_training_steps=None))
    attempt(lambda c: c.update(optlib="random"))
    for k in list(cur["post"]):
        attempt(lambda c, k=k: c["post"].pop(k, None))
    while len(cur["methods"]) > 1:
        if not (attempt(lambda c: c["methods"].pop()) or attempt(lambda c: c["methods"].pop(0))):
            break
    if cur["methods"] != ["sim-greedy"] and not cur.get("compressed"):
        attempt(lambda c: c.update(methods=["sim-greedy"]))
    while cur["max_repeats"] > 1 and attempt(lambda c: c.update(max_repeats=max(1, c["max_repeats"] // 2))):
        pass
    while cur["max_repeats"] > 1 and attempt(lambda c: c.update(max_repeats=c["max_repeats"] - 1)):
        pass
    if cur["pool"] is not None:
        attempt(lambda c: c["pool"].update(slow=False))
        attempt(lambda c: c["pool"].update(mode="thread"))
        while cur["pool"]["workers"] > 1 and attempt(lambda c: c["pool"].update(workers=c["pool"]["workers"] - 1)):
            pass
    if cur["minimize"] != "flops" and not cur.get("compressed"):
        attempt(lambda c: c.update(minimize="flops"))
    budget[0] = 3
    r = run_case(prop, cur)
    vs = [x for x in r["violations"] if violation_class(x) == cls]
    return cur, (vs[0] if vs else v)
