"""Child side of engine `detenv`: executes seeded cases inside ONE simulated
environment (this interpreter's PYTHONHASHSEED, a given global-RNG state and
drift, a warm-up history, a case order, a pool completion order) and prints a
canonical digest of every case's result.

stdin:  {"env": {...}, "cases": [...]}     stdout: RESULTS {"<case id>": "<digest or json>"}
"""

import hashlib
import json
import os
import random
import signal
import sys
import warnings

VERIF_DIR = os.path.dirname(os.path.dirname(os.path.abspath(__file__)))
sys.path.insert(0, VERIF_DIR)

from sim import clock  # noqa: E402

clock.install()
sys.path.insert(0, os.path.realpath(os.environ.get("VERIF_REPO", "/repo")))
warnings.simplefilter("ignore")

import numpy as np  # noqa: E402

import cotengra as ctg  # noqa: E402
from sim import prng, seams  # noqa: E402
from sim.pool import SimPool  # noqa: E402
from sim.trace import canon  # noqa: E402


def _net(c):
    n = c["net"]
    return tuple(tuple(t) for t in n["inputs"]), tuple(n["output"]), dict(n["size_dict"])


def _tree(c):
    if c.get("_tree_obj") is not None:
        return c["_tree_obj"]
    inputs, output, size_dict = _net(c)
    t = ctg.ContractionTree.from_path(inputs, output, size_dict, ssa_path=[tuple(p) for p in c["ssa_path"]])
    for ix in c.get("pre_sliced", []):
        t.remove_ind_(ix)
    return t


def _tree_result(t):
    return {"ssa": t.get_ssa_path(), "sliced": [(ix, si.project) for ix, si in t.sliced_inds.items()]}


def _pool(c, env, clk):
    spec = c.get("pool")
    if not spec:
        return False
    return SimPool(clk, workers=spec["workers"], mode=spec["mode"], rng=random.Random(prng.H(env["pool_seed"], c["id"])))


def run_one(c, env, clk):
    """Seeded op; with c['twice'] the same call is issued twice on the SAME (warmed) object: both
    results are returned and must be equal ('regardless of what was called before')."""
    if c.get("twice"):
        c2 = dict(c)
        c2.pop("twice")
        if c.get("ssa_path") is not None:
            t = _tree(c)
            w = c.get("warm")
            if w:
                t.subtree_reconfigure_(subtree_size=w["subtree_size"], maxiter=w["maxiter"], seed=w["seed"], select="random")
            c2["_tree_obj"] = t
        r1 = run_one(c2, env, clk)
        r2 = run_one(c2, env, clk)
        return {"first": r1, "second": r2, "same": canon(r1) == canon(r2)}
    api = c["api"]
    a = c.get("args", {})
    s = c["seed"]
    if api == "threads_interleaved":
        from sim import threads as st

        subs = c["subs"]
        alone = [run_one(dict(sc), env, clk) for sc in subs]
        sched = st.Scheduler(st.WalkChooser(random.Random(prng.H(env["pool_seed"], c["id"])), a.get("switch_p", 0.05)),
                             lambda base, name, full: "cotengra" in full, max_points=20_000_000)
        got = [None] * len(subs)

        def mk(i):
            def body():
                got[i] = run_one(dict(subs[i]), env, clk)
            return body

        errs = sched.run([mk(i) for i in range(len(subs))], [101 + i for i in range(len(subs))], [None] * len(subs))
        for i, e in enumerate(errs):
            if e is not None:
                got[i] = "EXC " + type(e).__name__ + ": " + str(e)[:200]
        return {"plain": alone, "interleaved": got, "same": canon(alone) == canon(got)}
    if api == "reusable_rgreedy_history":
        from cotengra.pathfinders.path_basic import ReusableRandomGreedyOptimizer

        def net2():
            n = c["net2"]
            return tuple(tuple(t) for t in n["inputs"]), tuple(n["output"]), dict(n["size_dict"])

        via = a.get("via", "search")

        def ask(o, net):
            return {"ssa": o.search(*net).get_ssa_path()} if via == "search" else {"path": [list(p) for p in o(*net)]}

        o1 = ReusableRandomGreedyOptimizer(max_repeats=3, seed=s, parallel=False)
        plain = ask(o1, _net(c))
        o2 = ReusableRandomGreedyOptimizer(max_repeats=3, seed=s, parallel=False)
        ask(o2, net2())  # the same reusable object answers another contraction first
        inter = ask(o2, _net(c))
        return {"plain": plain, "interleaved": inter, "same": canon(plain) == canon(inter)}
    if api == "seeded_optimizer_via_interface":
        from cotengra.pathfinders.path_basic import RandomGreedyOptimizer

        def mk(seed):
            return RandomGreedyOptimizer(max_repeats=3, seed=seed, parallel=False)

        direct = {"path": [list(p) for p in mk(s)(*_net(c))]}
        # another seeded optimizer object handles the same contraction through the (caching) interface first
        ctg.array_contract_path(*_net(c), optimize=mk(a["other_seed"]), canonicalize=False)
        via = {"path": [list(p) for p in ctg.array_contract_path(*_net(c), optimize=mk(s), canonicalize=False)]}
        return {"plain": direct, "interleaved": via, "same": canon(direct) == canon(via)}
    if api == "object_interleaved":
        # a seeded OBJECT is built, then some other seeded operations run, then the object is used: the
        # result must equal that of building and using it back to back ("regardless of what was called before")
        def build():
            kind = a["kind"]
            if kind == "rgreedy":
                from cotengra.pathfinders.path_basic import RandomGreedyOptimizer

                o = RandomGreedyOptimizer(max_repeats=3, seed=s, parallel=False)
                return lambda: {"ssa": o.search(*_net(c)).get_ssa_path()}
            if kind == "random_opt":
                from cotengra.pathfinders.path_random import RandomOptimizer

                o = RandomOptimizer(seed=s)
                return lambda: {"path": o(*_net(c))}
            if kind == "slicefinder":
                sf = ctg.SliceFinder(_tree(c), seed=s, target_size=a["target_size"], temperature=1.0)
                return lambda: {"ix": sorted(sf.search(3)[0])}
            if kind == "greedy_span":
                from cotengra.pathfinders.path_compressed_greedy import GreedySpan

                o = GreedySpan(seed=s, temperature=0.5)
                return lambda: {"ssa": o.get_ssa_path(*_net(c))}
            raise ValueError(kind)

        use = build()
        plain = use()
        use = build()
        # unrelated seeded calls in between
        t = _tree(c)
        t.subtree_reconfigure(seed=a["other_seed"], select="random", subtree_size=3, maxiter=2)
        ctg.utils.rand_equation(5, 3, seed=a["other_seed"] + 1)
        t.slice(target_slices=2, seed=a["other_seed"] + 2)
        inter = use()
        return {"plain": plain, "interleaved": inter, "same": canon(plain) == canon(inter)}
    if api == "rgreedy":
        from cotengra.pathfinders.path_basic import RandomGreedyOptimizer

        o = RandomGreedyOptimizer(max_repeats=a["max_repeats"], seed=s, parallel=_pool(c, env, clk))
        t = o.search(*_net(c))
        return {"ssa": t.get_ssa_path(), "flops": o.best_flops}
    if api == "rgreedy_track":
        from cotengra.pathfinders.path_basic import optimize_random_greedy_track_flops

        p, f = optimize_random_greedy_track_flops(*_net(c), ntrials=a["ntrials"], seed=s, use_ssa=True)
        return {"ssa": p, "flops": f}
    if api == "random_opt":
        from cotengra.pathfinders.path_random import RandomOptimizer

        return {"path": RandomOptimizer(seed=s)(*_net(c))}
    if api in ("divide", "agglom"):
        if a["partitioner"] == "labels":
            from cotengra.pathfinders.path_labels import labels_to_tree as builder
        else:
            from cotengra.pathfinders.path_kahypar import kahypar_to_tree as builder
        kw = dict(a.get("kw", {}))
        if api == "divide":
            t = builder.build_divide(*_net(c), seed=s, **kw)
        else:
            t = builder.build_agglom(*_net(c), seed=s, **kw)
        return {"ssa": t.get_ssa_path()}
    if api == "tree_slice":
        t = _tree(c).slice(seed=s, **a["kw"])
        return _tree_result(t)
    if api == "slicefinder":
        sf = ctg.SliceFinder(_tree(c), seed=s, **a["kw"])
        ix, cost = sf.search(a["max_repeats"])
        return {"ix": sorted(ix), "flops": cost.total_flops, "size": cost.size}
    if api == "reconf":
        t = _tree(c).subtree_reconfigure(seed=s, **a["kw"])
        return _tree_result(t)
    if api == "reconf_forest":
        t = _tree(c).subtree_reconfigure_forest(seed=s, parallel=_pool(c, env, clk), **a["kw"])
        return _tree_result(t)
    if api == "anneal":
        t = _tree(c).simulated_anneal(seed=s, **a["kw"])
        return _tree_result(t)
    if api == "temper":
        t = _tree(c).parallel_temper(seed=s, parallel=_pool(c, env, clk), **a["kw"])
        return _tree_result(t)
    if api == "unslice_rand":
        t = _tree(c).unslice_rand(seed=s)
        return _tree_result(t)
    if api == "get_subtree":
        t = _tree(c)
        sub = t.get_subtree(t.root, a["size"], search="random", seed=s)
        return {"sub": [[sorted(n) for n in part] for part in sub]}
    if api == "windowed":
        t = _tree(c).windowed_reconfigure(seed=s, **a["kw"])
        return {"ssa": t.get_ssa_path()}
    if api == "greedy_compressed":
        from cotengra.pathfinders.path_compressed_greedy import GreedyCompressed

        return {"ssa": GreedyCompressed(seed=s, **a["kw"]).get_ssa_path(*_net(c))}
    if api == "greedy_span":
        from cotengra.pathfinders.path_compressed_greedy import GreedySpan

        return {"ssa": GreedySpan(seed=s, **a["kw"]).get_ssa_path(*_net(c))}
    if api == "perverse_equation":
        return {"eq": ctg.utils.perverse_equation(seed=s, **a["kw"])}
    if api == "rand_equation":
        return {"eq": ctg.utils.rand_equation(seed=s, **a["kw"])}
    if api == "randreg_equation":
        return {"eq": ctg.utils.randreg_equation(seed=s, **a["kw"])}
    if api == "lattice_equation":
        return {"eq": ctg.utils.lattice_equation(a["dims"], seed=s, **a["kw"])}
    if api == "rand_tree":
        t = ctg.utils.rand_tree(seed=s, **a["kw"])
        return {"inputs": t.inputs, "output": t.output, "sizes": t.size_dict, "ssa": t.get_ssa_path()}
    if api == "rand_size_dict":
        inputs, _, _ = _net(c)
        return {"sizes": ctg.utils.make_rand_size_dict_from_inputs(inputs, seed=s, **a["kw"])}
    if api == "arrays_from_inputs":
        inputs, _, size_dict = _net(c)
        arrs = ctg.utils.make_arrays_from_inputs(inputs, size_dict, seed=s)
        return {"arrays": [hashlib.sha256(np.ascontiguousarray(x).tobytes()).hexdigest()[:16] for x in arrs]}
    if api == "arrays_from_eq":
        arrs = ctg.utils.make_arrays_from_eq(a["eq"], seed=s)
        return {"arrays": [hashlib.sha256(np.ascontiguousarray(x).tobytes()).hexdigest()[:16] for x in arrs]}
    if api == "jitter_dict":
        from cotengra.core import jitter_dict

        return {"d": jitter_dict(dict(c["net"]["size_dict"]), a["strength"], s)}
    raise ValueError(api)


def warmup(seed):
    """An unrelated history of cotengra calls: fills lru caches, interface
    caches and the preset optimizers' per-thread state."""
    r = random.Random(seed)
    for _ in range(r.randint(0, 6)):
        k = r.randrange(5)
        try:
            if k == 0:
                eq = r.choice(["ab,bc->ac", "ab,bc,cd->ad", "abc,bcd,de->ae", "a,a->"])
                ctg.einsum(eq, *ctg.utils.make_arrays_from_eq(eq, seed=r.randrange(99)))
            elif k == 1:
                i, o, _, s = ctg.utils.rand_equation(r.randint(3, 7), 3, seed=r.randrange(99))
                ctg.array_contract_path(i, o, s, optimize=r.choice(["greedy", "optimal", "auto"]))
            elif k == 2:
                i, o, _, s = ctg.utils.rand_equation(6, 3, seed=r.randrange(99))
                ctg.HyperOptimizer(max_repeats=3, parallel=False, optlib="random", methods=["greedy"]).search(i, o, s)
            elif k == 3:
                i, o, _, s = ctg.utils.rand_equation(7, 3, seed=r.randrange(99))
                t = ctg.array_contract_tree(i, o, s, optimize="greedy")
                t.subtree_reconfigure_(subtree_size=3, maxiter=2)
                t.slice_(target_size=4)
            else:
                set(map(str, range(r.randint(1, 50))))
        except Exception:
            pass


CASE_LIMIT = float(os.environ.get("VERIF_DETENV_CASE_LIMIT", "30"))


class _CaseTimeout(BaseException):
    pass


def _on_alarm(signum, frame):
    raise _CaseTimeout()


def main():
    import signal as _s

    _s.signal(_s.SIGALRM, _on_alarm)
    job = json.load(sys.stdin)
    env = job["env"]
    cases = job["cases"]
    seams.install()
    seams.set_entropy(prng.H(env["global_seed"], "entropy"))
    random.seed(env["global_seed"])
    np.random.seed(env["global_seed"] % (2 ** 32))
    for _ in range(env["predraws"]):
        random.random()
        np.random.random()
    warmup(env["warmup_seed"])
    order = list(range(len(cases)))
    random.Random(env["order_seed"]).shuffle(order)
    drift = random.Random(env["drift_seed"])
    out = {}
    clk = clock.VirtualClock()
    with clock.activate(clk):
        for i in order:
            c = cases[i]
            for _ in range(drift.randint(0, 5)):
                random.random()
                np.random.random()
            try:
                # bounded runs: a case that does not return (e.g. build_agglom looping when the partitioner makes no
                # progress - observation O3) is cut after CASE_LIMIT seconds of real time and reported as such
                signal.setitimer(signal.ITIMER_REAL, CASE_LIMIT)
                res = run_one(c, env, clk)
                signal.setitimer(signal.ITIMER_REAL, 0)
                out[c["id"]] = json.dumps(canon(res), sort_keys=True)
            except _CaseTimeout:
                out[c["id"]] = "EXC did-not-return-within-limit"
            except Exception as e:
                signal.setitimer(signal.ITIMER_REAL, 0)
                out[c["id"]] = "EXC " + type(e).__name__ + ": " + str(e)[:200]
    print("RESULTS " + json.dumps(out))


if __name__ == "__main__":
    main()
