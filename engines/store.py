"""Engine `store` — reusable (caching) optimizers over a simulated file system.

C14: seeded query/restart/reconfigure histories with clean restarts; reference
     model of what was acknowledged; every hit must be a correct answer.
C15: crash-point enumeration: every op boundary and every byte offset of every
     write of the storing process, then fresh processes on the same directory.
DESIGN.md §4 C14, C15.
"""

import copy
import math
import os
import pickle
import random
import re as _re
import shutil
import tempfile
import warnings

from sim import clock as simclock
from sim import fs as simfs
from sim import netgen, prng
from sim.trace import EventLog, canon, ddmin

CASE_TIMEOUT = 240
LEVEL = {"C14": "exploration", "C15": "fault_enumeration"}
PLAN = {
    "C14": {"quick": {"runs": 60000, "wall_cap": 110, "chunk": 200, "selftest": 8},
            "thorough": {"runs": 2000000, "wall_cap": 1700, "chunk": 500, "selftest": 40}},
    "C15": {"quick": {"runs": 3000, "wall_cap": 110, "chunk": 8, "selftest": 4},
            "thorough": {"runs": 20000, "wall_cap": 1700, "chunk": 10, "selftest": 16}},
}
RULE = {
    "C14": ("one evaluation = one seeded history of 3-14 steps (query via search or __call__, clean restart with new "
            "overwrite/cache_only/directory_split/slicing options, update_from_tree) over a pool of 3-7 adversarially "
            "similar contractions through a ReusableHyperOptimizer or ReusableRandomGreedyOptimizer, in memory or on a "
            "scratch directory behind the simulated FS layer; index labels are characters, multi-character strings or integers (with a look-alike whose labels concatenate alike); after some answers a fresh cache_only process reads the entry back; the caller may mutate returned trees or keep one set of "
            "argument containers, and in ~8% of the hyper histories' queries every trial of the inner search is made to fail "
            "(the query may fail, nothing for another contraction may come back); every answer is judged against a reference model of what "
            "was acknowledged. distinct_nontrivial counts distinct (model key-set, optimizer configuration, restart "
            "count, last step kind, hit/miss) states among steps that followed at least one store."),
    "C15": ("one evaluation = one seeded scenario (optimizer kind, layout, pre-existing entries, new-entry / overwrite / "
            "improved-overwrite / first-write-into-missing-subdirectory / second-crash-during-recovery; a quarter with two "
            "writer threads storing the same entry under the seeded baton scheduler); the storing "
            "process' mutation sequence is recorded fault-free and then EVERY op boundary and (thorough: every, quick: "
            "a seeded third of the) byte offsets of every write are used as crash points; after each crash three fresh "
            "processes query the directory. distinct_nontrivial counts distinct (scenario kind, op kind at the crash "
            "point, torn-byte bucket, recovery outcome, optimizer kind, flush policy, writer entry point, number of earlier "
            "entries, layout, sliced or not) tuples; coverage.crash_points is the number explored."),
}
COMPONENTS = {
    "real": ["cotengra.reusable.ReusableOptimizer", "ReusableHyperOptimizer / HyperOptimizer (tiny seeded searches)",
             "ReusableRandomGreedyOptimizer", "cotengra.utils.DiskDict (real pickle, real pathlib on a real scratch directory)"],
    "stub": ["mutating file-system calls (builtins.open/io.open for writing, os.open/write/mkdir/replace/rename/unlink/...)"
             " -> sim.fs.SimFS: numbered crash points, byte-exact torn writes, inert after the crash",
             "process = one optimizer object graph; restart = drop it and build a new one on the same directory",
             "time.sleep in DiskDict retry -> virtual clock",
             "the writer's two threads (C15) -> real threads serialised by the baton scheduler, pre-empted at line events in reusable.py / DiskDict",
             "C14 trial fault -> a registered hyper method that raises while the simulator has it armed"],
}
ASSUMPTIONS = {
    "C14": ["the library's own public hash_query() names the entry a query maps to; validity of what is served is judged operationally "
            "(tree of the query, stored sliced indices, stored score == score recomputed on the returned tree)",
            "for hash_method='a' an independent canonical form (sorted terms, sorted output, sorted sizes) decides which sharing is allowed",
            "`minimize` is kept fixed per directory (changing the objective under an existing cache is user error)",
            "cache_only=True together with a truthy overwrite refuses every query (accepted)",
            "restarts are clean (no crash) in this property"],
    "C15": ["durability model is process death with the OS surviving: completed system calls are durable, fsync and power loss are out of scope",
            "two flush policies are simulated, chosen per scenario: write-through (every write() is a syscall) and buffered (like io.BufferedWriter: data reaches the disk at flush/close or beyond 8 KiB; a killed process loses its buffer); every byte prefix of every syscall is a crash point",
            "a failure of the recovering process only counts if it repeats for three successive fresh processes",
            "sampled cross-check: the same crash executed with a real os._exit(137) in a forked child yields byte-identical directory contents"],
}
EXPECTED_PROBES = {
    "C14": ["probe:hit_after_restart", "probe:hit_same_process", "probe:improved_overwrite_search", "probe:cache_only_refusal",
            "probe:cache_only_hit", "probe:shared_entry_allowed", "probe:sliced_entry_served", "step:update_from_tree",
            "probe:hash_b_hit", "probe:shared_mutable_args", "probe:caller_mutated_returned_tree",
            "all_trials_failed", "probe:query_failed_cleanly_after_trial_faults", "probe:labels_int", "probe:labels_multichar",
            "probe:readback_by_fresh_process"],
    "C15": ["crash:open", "crash:write-torn", "crash:mkdir", "outcome:old-entry-served", "outcome:new-entry-served",
            "outcome:searched-again", "probe:real_exit_crosscheck", "probe:second_crash", "probe:other_entries_checked",
            "probe:two_writer_threads"],
}


def violation_class(v):
    return (v["oracle"],)


class C(dict):
    def __missing__(self, k):
        return 0


# ---------------------------------------------------------------------------
# pool of adversarially similar contractions


def _variants(rng, base):
    inputs, output, size_dict = base
    out = []
    n = len(inputs)

    def mk(i, o, s, why):
        out.append({"inputs": [list(t) for t in i], "output": list(o), "size_dict": dict(s), "why": why})

    mk(inputs, output, size_dict, "base")
    # output permuted
    if len(output) >= 2:
        o = list(output)
        while o == list(output):
            rng.shuffle(o)
        mk(inputs, o, size_dict, "output-permuted")
    # indices permuted inside one tensor
    cands = [i for i, t in enumerate(inputs) if len(set(t)) >= 2]
    if cands:
        i = rng.choice(cands)
        t = list(inputs[i])
        t2 = t[:]
        for _ in range(5):
            rng.shuffle(t2)
            if t2 != t:
                break
        ins = [list(x) for x in inputs]
        ins[i] = t2
        mk(ins, output, size_dict, "term-permuted")
    # one size changed
    ix = rng.choice(sorted(size_dict))
    s2 = dict(size_dict)
    s2[ix] = size_dict[ix] + 1
    mk(inputs, output, s2, "size-changed")
    # output index dropped / added
    if output:
        o = list(output)
        o.pop(rng.randrange(len(o)))
        mk(inputs, o, size_dict, "output-dropped")
    extra = [ix for ix in sorted(size_dict) if ix not in output]
    if extra:
        mk(inputs, list(output) + [rng.choice(extra)], size_dict, "output-added")
    # two tensors swapped
    if n >= 2:
        i, j = rng.sample(range(n), 2)
        ins = [list(x) for x in inputs]
        ins[i], ins[j] = ins[j], ins[i]
        mk(ins, output, size_dict, "tensors-swapped")
    # names permuted across edges, sizes following the names' *position* (same geometry, same size multiset)
    names = sorted(size_dict)
    if len(names) >= 2:
        perm = names[:]
        for _ in range(5):
            rng.shuffle(perm)
            if perm != names:
                break
        m = dict(zip(names, perm))
        ins = [[m[ix] for ix in t] for t in inputs]
        o = [m[ix] for ix in output]
        # (a) sizes travel with the edge: isomorphic contraction
        mk(ins, o, {m[k]: v for k, v in size_dict.items()}, "relabelled-isomorphic")
        # (b) sizes stay with the names: different contraction when sizes are unequal
        mk(ins, o, dict(size_dict), "relabelled-sizes-by-name")
    return out


def _label_map(rng, pool, mode):
    """Index labels other than single characters: multi-character strings or integers (>= 10 among them), chosen so
    that one tensor of the base has a look-alike whose labels concatenate to the same text ('a'+'bc' vs 'ab'+'c',
    1,23 vs 12,3). Returns (mapping old->new, extra variant or None). The mapping lives in the case as JSON
    (str -> str|int) and is applied when the run starts."""
    base = pool[0]
    names = sorted({ix for q in pool for ix in q["size_dict"]})
    twin = None
    special = {}
    cands = [(i, t) for i, t in enumerate(base["inputs"]) if len(set(t)) >= 2]
    rng.shuffle(cands)
    for i, t in cands:
        others = [ix for ix in sorted(base["size_dict"]) if ix not in t]
        # the look-alike must stay a valid contraction: the two indices taken off this tensor still appear elsewhere
        movable = [ix for ix in sorted(set(t)) if sum(1 for u in base["inputs"] if ix in u) >= 2]
        if len(others) >= 2 and len(movable) >= 2:
            pq = rng.sample(movable, 2)
            rs = rng.sample(others, 2)
            tok = ["a", "bc", "ab", "c"] if mode == "multi" else [1, 23, 12, 3]
            special = dict(zip(pq + rs, tok))
            ins = [list(x) for x in base["inputs"]]
            ins[i] = [rs[pq.index(ix)] if ix in pq else ix for ix in t]
            twin = {"inputs": ins, "output": list(base["output"]), "size_dict": dict(base["size_dict"]), "why": "labels-concatenate-alike"}
            break
    if mode == "multi":
        spare = ["d", "e", "fg", "h", "ij", "k", "lm", "n", "op", "q", "rs", "t", "uv", "w", "xy", "z"] + ["v%d" % k for k in range(40)]
    else:
        spare = [4, 5, 6, 7, 8, 9, 10, 11, 14, 15, 16, 17, 18, 19, 20, 21, 22] + list(range(30, 90))
    m = {}
    for ix in names:
        m[ix] = special[ix] if ix in special else spare.pop(0)
    return m, twin


def _apply_labels(q, m):
    if not m:
        return q
    return {"inputs": [[m[ix] for ix in t] for t in q["inputs"]], "output": [m[ix] for ix in q["output"]],
            "size_dict": {m[k]: v for k, v in q["size_dict"].items()}, "why": q["why"]}


def canon_a(q):
    return (tuple(tuple(sorted(t)) for t in q["inputs"]), tuple(sorted(q["output"])), tuple(sorted(q["size_dict"].items())))


def _q_args(q):
    return (tuple(tuple(t) for t in q["inputs"]), tuple(q["output"]), dict(q["size_dict"]))


# ---------------------------------------------------------------------------
# optimizer construction ("process start")


_TRIAL_FAULT = {"armed": False, "fired": 0, "registered": False}


def _faulty_greedy_trial(inputs, output, size_dict, **kw):
    """greedy, except while the simulator has the trial fault armed: then every trial raises (a crashing backend,
    a solver that times out ...), which the hyper-optimizer is documented to survive (on_trial_error)."""
    if _TRIAL_FAULT["armed"]:
        _TRIAL_FAULT["fired"] += 1
        raise RuntimeError("injected trial failure")
    from cotengra.pathfinders.path_greedy import trial_greedy

    return trial_greedy(inputs, output, size_dict, **kw)


def _register_faulty():
    if _TRIAL_FAULT["registered"]:
        return
    from cotengra.hyperoptimizers import hyper as H

    H.register_hyper_function("sim-c14-greedy", _faulty_greedy_trial, dict(H._HYPER_SEARCH_SPACE["greedy"]),
                              dict(H._HYPER_CONSTANTS["greedy"]))
    _TRIAL_FAULT["registered"] = True


def make_optimizer(ctg, cfg, directory):
    kw = dict(directory=directory, overwrite=cfg.get("overwrite", False), hash_method=cfg.get("hash_method", "a"),
              cache_only=cfg.get("cache_only", False), directory_split=cfg.get("directory_split", "auto"))
    if cfg["kind"] == "hyper":
        kw.update(methods=list(cfg.get("methods", ["greedy"])), max_repeats=cfg.get("max_repeats", 2), optlib="random",
                  parallel=False, minimize=cfg.get("minimize", "flops"), progbar=False, seed=cfg.get("opt_seed", 0))
        if cfg.get("slicing_opts"):
            kw["slicing_opts"] = dict(cfg["slicing_opts"])
        return ctg.ReusableHyperOptimizer(**kw)
    from cotengra.pathfinders.path_basic import ReusableRandomGreedyOptimizer

    kw.update(max_repeats=cfg.get("max_repeats", 2), seed=cfg.get("opt_seed", 0), parallel=False)
    return ReusableRandomGreedyOptimizer(**kw)


class SearchCounter:
    """Counts inner searches through the class-attribute seam."""

    def __init__(self):
        self.n = 0
        self._saved = []

    def __enter__(self):
        from cotengra.hyperoptimizers.hyper import HyperOptimizer
        from cotengra.pathfinders.path_basic import RandomGreedyOptimizer

        me = self
        for cls in (HyperOptimizer, RandomGreedyOptimizer):
            orig = cls.search
            self._saved.append((cls, orig))

            def counted(self_, *a, __orig=orig, **k):
                me.n += 1
                return __orig(self_, *a, **k)

            cls.search = counted
        return self

    def __exit__(self, *exc):
        for cls, orig in self._saved:
            cls.search = orig
        return False


def tree_score(tree, kind):
    if kind == "hyper":
        return tree.get_score()
    return math.log10(tree.total_flops())


def check_tree(tree, q):
    """Structural validity of ``tree`` as an answer to query ``q``."""
    inputs, output, size_dict = _q_args(q)
    if not tree.is_complete():
        return "tree is not complete"
    if len(tree.inputs) != tree.N or tree.N != len(inputs):
        return f"tree.N={tree.N} but the query has {len(inputs)} tensors"
    if tuple(tuple(t) for t in tree.inputs) != inputs:
        return f"tree.inputs {tree.inputs} != queried {inputs}"
    if tuple(tree.output) != output:
        return f"tree.output {tree.output} != queried {output}"
    if dict(tree.size_dict) != size_dict:
        return "tree.size_dict differs from the query"
    allix = set(size_dict)
    for ix in tree.sliced_inds:
        if ix not in allix or not any(ix in t for t in inputs):
            return f"sliced index {ix!r} is not an index of the queried contraction"
    return None


def check_path(path, q):
    n = len(q["inputs"])
    rem = n
    try:
        for p in path:
            p = tuple(p)
            if len(p) < 1 or any((not isinstance(i, int)) or i < 0 or i >= rem for i in p) or len(set(p)) != len(p):
                return f"step {p} invalid with {rem} tensors remaining"
            rem -= len(p) - 1
    except Exception as e:
        return f"malformed path: {e}"
    if rem != 1 and n > 1:
        return f"path leaves {rem} tensors"
    return None


# ===========================================================================
# C14
# ===========================================================================


def gen_case_c14(seed, tier):
    sw = prng.stream(seed, "swarm")
    net_rng = prng.stream(seed, "net")
    ops_rng = prng.stream(seed, "ops")
    kind = sw.choice(["hyper", "hyper", "rgreedy"])
    feat = {"hyper": sw.random() < 0.3 and kind == "hyper", "out_hyper": sw.random() < 0.2 and kind == "hyper"}
    base = netgen.gen_network(net_rng, n_min=4, n_max=sw.choice([5, 7, 9]), max_inds=16, dims=sw.choice([(2, 3), (2, 3, 4), (2, 2, 8)]),
                              max_rank=4, space_cap=2 ** 40, feat=feat)
    pool = _variants(net_rng, base)
    labels_mode = sw.choice(["char", "char", "char", "multi", "int"])
    label_map = None
    if labels_mode != "char":
        label_map, twin = _label_map(net_rng, pool, labels_mode)
        if twin is not None:
            pool.insert(1, twin)
    if labels_mode == "char":
        net_rng.shuffle(pool)
    else:
        # the base and its look-alike stay in the pool
        first, rest = pool[:2], pool[2:]
        net_rng.shuffle(rest)
        pool = first + rest
    pool = pool[: sw.randint(3, 7)]
    hash_method = sw.choice(["a", "a", "b"])
    cfg0 = {"kind": kind, "hash_method": hash_method, "max_repeats": sw.randint(1, 3), "opt_seed": sw.randrange(2 ** 31),
            "methods": sw.choice([["greedy"], ["greedy", "labels"], ["random-greedy"]]),
            "minimize": sw.choice(["flops", "flops", "size", "combo"]),
            "directory_split": sw.choice(["auto", True, False])}
    use_dir = sw.random() < 0.65
    steps = []
    nsteps = sw.randint(3, 14)
    # fault: during some queries EVERY trial of the inner search fails (the query may fail; nothing wrong may be returned
    # or stored, and later queries must be answered correctly)
    disk_faults = sw.random() < 0.3
    trial_faults = kind == "hyper" and sw.random() < 0.3
    if trial_faults:
        cfg0["methods"] = ["sim-c14-greedy"]

    def gen_cfg_changes():
        ch = {"overwrite": ops_rng.choice([False, False, True, "improved", "improved"]),
              "cache_only": ops_rng.random() < 0.2,
              "directory_split": ops_rng.choice(["auto", "auto", cfg0["directory_split"]]),
              "max_repeats": ops_rng.randint(1, 3), "opt_seed": ops_rng.randrange(2 ** 31)}
        if kind == "hyper":
            ch["slicing_opts"] = ops_rng.choice([None, None, {"target_size": 2 ** ops_rng.randint(1, 4)}, {"target_slices": 2}])
        return ch

    # swarm: some histories hammer one contraction (needs several stores of the SAME entry in one process)
    focus = sw.random() < 0.35
    p_restart = sw.choice([0.2, 0.2, 0.05])
    for _ in range(nsteps):
        r = ops_rng.random()
        if r < 0.88 - p_restart:
            qi = 0 if (focus and ops_rng.random() < 0.75) else ops_rng.randrange(len(pool))
            steps.append({"step": "query", "q": qi, "via": ops_rng.choice(["search", "search", "call"]),
                          "seed": ops_rng.randrange(2 ** 31),
                          # what the caller does with the returned tree afterwards (it is theirs to modify)
                          "mutate": ops_rng.choice([None, None, None, "remove_ind", "reconf"])})
            if trial_faults and ops_rng.random() < 0.25:
                steps[-1]["fail_trials"] = True
            # right after the answer a fresh cache_only process reads the entry back: it must hold what was just returned
            steps[-1]["readback"] = ops_rng.random() < 0.3
            # fault: one mutating system call made on behalf of this query fails with ENOSPC (for a write possibly after a
            # prefix reached the disk); the process lives on
            if use_dir and disk_faults and ops_rng.random() < 0.2:
                steps[-1]["disk_error"] = {"op": ops_rng.randint(0, 5), "bytes": ops_rng.choice([None, None, 1, 17, 60])}
        elif r < 0.88:
            steps.append({"step": "restart", "cfg": gen_cfg_changes()})
        else:
            steps.append({"step": "update_from_tree", "q": ops_rng.randrange(len(pool)), "seed": ops_rng.randrange(2 ** 31),
                          "overwrite": ops_rng.choice([False, True, "improved"]),
                          "slice_k": ops_rng.choice([None, None, 0, 1])})
    first = gen_cfg_changes()
    first["cache_only"] = False
    # some callers keep ONE inputs/output/size_dict object and edit it in place between queries (e.g. a bond-dimension sweep)
    args_mode = sw.choice(["fresh", "fresh", "shared-mutable"])
    return {"seed": seed, "prop": "C14", "pool": pool, "cfg": cfg0, "first_cfg": first, "use_dir": use_dir, "steps": steps,
            "args_mode": args_mode, "labels": label_map}


def run_case_c14(case):
    import cotengra as ctg
    from sim import seams as _seams

    _seams.hermetic_reset()

    simfs.install()
    _register_faulty()
    _TRIAL_FAULT["armed"] = False
    log = EventLog()
    counters, faults = C(), C()
    states = set()
    violations = []
    pool = [_apply_labels(q, case.get("labels")) for q in case["pool"]]
    if case.get("labels"):
        counters["probe:labels_" + ("int" if any(isinstance(v, int) for v in case["labels"].values()) else "multichar")] += 1
    kind = case["cfg"]["kind"]
    hash_method = case["cfg"]["hash_method"]
    scratch = tempfile.mkdtemp(prefix="verif-c14-", dir=simfs.scratch_base())
    directory = os.path.join(scratch, "cache") if case["use_dir"] else None
    fsim = simfs.SimFS(scratch)
    clk = simclock.VirtualClock()
    model = {}  # h -> {"path","score","sliced","canon","q"}
    mixed = set()  # entries that served queries with different canonical forms
    cur = {"hk": None}
    restarts = 0
    stored_once = False
    live_inputs, live_output, live_sizes = [], [], {}
    tainted = set()

    def V(oracle, detail, **sig):
        s = {"kind": kind, "hash_method": hash_method, "dir": bool(directory),
             "entry_shared_by_different_contractions": cur["hk"] in mixed}
        s.update(sig)
        violations.append({"oracle": oracle, "detail": detail, "sig": s})

    log.add("case", case["seed"], case["cfg"], case["use_dir"], [(q["inputs"], q["output"], q["size_dict"]) for q in pool])
    try:
        with simclock.activate(clk), simfs.activate(fsim), SearchCounter() as sc, warnings.catch_warnings():
            warnings.simplefilter("ignore")
            layout = case["cfg"]["directory_split"]
            layout = True if layout == "auto" else layout

            def fix_layout(cfg):
                # one layout per directory: a process either names it explicitly or says 'auto';
                # 'auto' on a directory without entries defaults to the split layout
                if cfg.get("directory_split") == "auto":
                    if layout is False and not stored_once:
                        cfg["directory_split"] = False
                else:
                    cfg["directory_split"] = layout
                return cfg

            cfg = dict(case["cfg"])
            cfg.update(case["first_cfg"])
            opt = make_optimizer(ctg, fix_layout(cfg), directory)
            for si, st in enumerate(case["steps"]):
                if violations:
                    break
                kind_step = st["step"]
                counters["step:" + kind_step] += 1
                if kind_step == "restart":
                    restarts += 1
                    cfg = dict(case["cfg"])
                    cfg.update(st["cfg"])
                    opt = None
                    if directory is None:
                        model.clear()  # memory-only cache dies with the process
                    for tk in tainted:
                        if tk in model:
                            model[tk] = dict(model[tk], path=None, score=None, sliced=None, maybe=True)
                    opt = make_optimizer(ctg, fix_layout(cfg), directory)
                    log.add("restart", si, cfg)
                    continue
                q = pool[st["q"] % len(pool)]
                args = _q_args(q)
                if case.get("args_mode") == "shared-mutable":
                    # the caller's own long-lived containers, updated in place to describe this query
                    live_inputs[:] = [list(t) for t in q["inputs"]]
                    live_output[:] = list(q["output"])
                    live_sizes.clear()
                    live_sizes.update(q["size_dict"])
                    args = (live_inputs, live_output, live_sizes)
                    counters["probe:shared_mutable_args"] += 1
                prng.reseed_globals(prng.H(case["seed"], "step", si))
                try:
                    h, _missing = opt.hash_query(*args)
                except Exception as e:
                    V("hash-query-raised", f"step {si}: {type(e).__name__}: {e}")
                    break
                hk = h if isinstance(h, str) else "".join(h)
                cur["hk"] = hk
                entry = model.get(hk)
                if entry is not None and canon_a(q) != entry["canon"]:
                    mixed.add(hk)
                if kind_step == "update_from_tree":
                    # a user-supplied tree for this contraction
                    trng = random.Random(st["seed"])
                    tree = ctg.ContractionTree.from_path(*args, ssa_path=[tuple(p) for p in netgen.random_ssa_path(trng, len(args[0]))],
                                                         objective=cfg.get("minimize", "flops") if kind == "hyper" else None)
                    if st.get("slice_k") is not None and kind == "hyper":
                        inner = [ix for ix in sorted(args[2]) if any(ix in t for t in args[0])]
                        if inner:
                            tree.remove_ind_(inner[st["slice_k"] % len(inner)])
                    new_score = tree.get_score()
                    try:
                        opt.update_from_tree(tree, overwrite=st["overwrite"])
                    except Exception as e:
                        V("update-from-tree-raised", f"step {si}: {type(e).__name__}: {e}")
                        break
                    ow = st["overwrite"]
                    if kind != "hyper":
                        # random-greedy stores log10(flops) but update_from_tree stores tree.get_score(): scores are not
                        # comparable, so only track the entry when it is certain which one is kept
                        if entry is None or ow is True:
                            model[hk] = {"path": tree.get_path(), "score": None, "sliced": tuple(tree.sliced_inds), "canon": canon_a(q), "q": q}
                        elif ow == "improved":
                            model[hk] = {"path": None, "score": None, "sliced": None, "canon": entry["canon"], "q": entry["q"]}
                    else:
                        if entry is None or ow is True or (ow == "improved" and entry["score"] is not None and new_score < entry["score"]):
                            model[hk] = {"path": tree.get_path(), "score": new_score, "sliced": tuple(tree.sliced_inds), "canon": canon_a(q), "q": q}
                        elif ow == "improved" and entry["score"] is not None and new_score <= entry["score"] * (1 + 1e-12) + 1e-12:
                            # an exact tie: whether the old or the new order is kept is the library's choice (the stored
                            # score does not get worse either way)
                            model[hk] = {"path": None, "score": entry["score"], "sliced": None, "canon": entry["canon"], "q": entry["q"]}
                        elif ow == "improved" and entry["score"] is None:
                            model[hk] = {"path": None, "score": None, "sliced": None, "canon": entry["canon"], "q": entry["q"]}
                    if hk not in tainted:
                        stored_once = True
                    log.add("update", si, hk, new_score)
                    continue
                # ---- query -----------------------------------------------------
                n0 = sc.n
                err = None
                res = None
                fired0 = _TRIAL_FAULT["fired"]
                _TRIAL_FAULT["armed"] = bool(st.get("fail_trials"))
                derr0 = fsim.errors_fired
                if st.get("disk_error") and directory is not None:
                    fsim.error_at = {len(fsim.ops) + int(st["disk_error"]["op"])}
                    fsim.error_bytes = st["disk_error"].get("bytes")
                try:
                    if st["via"] == "search":
                        res = opt.search(*args)
                    else:
                        res = opt(*args)
                except KeyError as e:
                    err = e
                except Exception as e:
                    if _TRIAL_FAULT["fired"] > fired0 or fsim.errors_fired > derr0:
                        err = e
                    else:
                        V("query-raised", f"step {si} ({st['via']}) raised {type(e).__name__}: {e}", via=st["via"])
                        break
                finally:
                    _TRIAL_FAULT["armed"] = False
                    fsim.error_at = None
                    fsim.error_bytes = None
                searched = sc.n - n0
                if fsim.errors_fired > derr0:
                    # a system call of this query failed (disk full): the query may fail, and whether its entry got stored
                    # is unknown - but an answer, if any, must be for this query, and later queries must be right
                    faults["disk_error_injected"] += 1
                    log.add("query-with-disk-error", si, hk, st["via"], None if err is None else type(err).__name__)
                    # (stored_once stays as it is: whether this store established the directory's layout is unknown, so a
                    # flat-layout directory keeps being named explicitly until a store has certainly succeeded)
                    if err is None and res is not None:
                        why = check_tree(res, q) if st["via"] == "search" else check_path(res, q)
                        if why:
                            V("answer-not-for-this-query", f"step {si} (after a disk error): {why}", via=st["via"], variant=q["why"])
                            break
                    else:
                        counters["probe:query_failed_after_disk_error"] += 1
                    model[hk] = {"path": None, "score": None, "sliced": None, "canon": canon_a(q), "q": q, "maybe": True}
                    # the writing process keeps the entry in memory although it may never have reached the disk: for the
                    # rest of the run, what OTHER processes find under this key is uncertain (lost, never wrong)
                    tainted.add(hk)
                    continue
                if _TRIAL_FAULT["fired"] > fired0:
                    # every trial of this query's search was made to fail
                    faults["all_trials_failed"] += 1
                    log.add("query-with-failed-trials", si, hk, st["via"], None if err is None else type(err).__name__)
                    if err is not None:
                        # the query failed: allowed; the library must not have stored anything for it
                        counters["probe:query_failed_cleanly_after_trial_faults"] += 1
                        continue
                    # an answer came back although no trial produced a tree: it must still be an answer to THIS query
                    why = check_tree(res, q) if st["via"] == "search" else check_path(res, q)
                    if why:
                        V("answer-not-for-this-query", f"step {si} (all trials failed): {why}", via=st["via"], variant=q["why"], after_trial_faults=True)
                        break
                    # whatever it stored is unknown to the model from here on
                    model[hk] = {"path": None, "score": None, "sliced": None, "canon": canon_a(q), "q": q}
                    continue
                ow = cfg.get("overwrite", False)
                co = cfg.get("cache_only", False)
                log.add("query", si, hk, st["via"], searched, None if err is None else "KeyError", ow, co)
                # cache_only semantics
                if co:
                    if searched:
                        V("cache-only-searched", f"step {si}: cache_only optimizer ran {searched} inner search(es)")
                        break
                    should_refuse = (entry is None) or bool(ow)
                    if err is not None:
                        counters["probe:cache_only_refusal"] += 1
                        if not should_refuse and not entry.get("maybe"):
                            V("cache-only-refused-present-entry", f"step {si}: KeyError although the entry was acknowledged earlier: {err}")
                            break
                        continue
                    if should_refuse and entry is None:
                        # answered although nothing is stored under this query's key and nothing was searched (e.g. a
                        # contraction small enough to be answered outright): allowed, the answer is judged like any other
                        counters["probe:cache_only_answered_without_entry"] += 1
                    else:
                        counters["probe:cache_only_hit"] += 1
                elif err is not None:
                    V("query-raised", f"step {si} ({st['via']}) raised KeyError: {err}", via=st["via"])
                    break
                # searches expected?
                if not co:
                    if entry is None or ow:
                        # (how many inner searches an absent or to-be-overwritten entry costs is the library's business)
                        if searched != 1:
                            counters["probe:absent_entry_answered_with_%s_searches" % ("no" if searched == 0 else "several")] += 1
                        if ow == "improved" and entry is not None:
                            counters["probe:improved_overwrite_search"] += 1
                    else:
                        if searched != 0 and not entry.get("maybe"):
                            V("searched-again-on-repeat", f"step {si}: entry present and overwrite=False but {searched} inner search(es) ran")
                            break
                hit = (entry is not None) and (searched == 0)
                if hit and entry.get("maybe"):
                    counters["probe:entry_survived_disk_error"] += 1
                if hit:
                    counters["probe:hit_after_restart" if restarts else "probe:hit_same_process"] += 1
                    if hash_method == "b":
                        counters["probe:hash_b_hit"] += 1
                # ---- validity of the answer for THIS query -----------------------
                if st["via"] == "search":
                    tree = res
                    why = check_tree(tree, q)
                    if why:
                        V("answer-not-for-this-query", f"step {si}: {why}", via="search", variant=q["why"])
                        break
                    got_path = tree.get_path()
                    got_sliced = tuple(tree.sliced_inds)
                    try:
                        got_score = tree_score(tree, kind)
                    except Exception as e:
                        V("score-of-answer-raised", f"step {si}: {type(e).__name__}: {e}")
                        break
                else:
                    why = check_path(res, q)
                    if why:
                        V("answer-not-for-this-query", f"step {si}: {why}", via="call", variant=q["why"])
                        break
                    got_path = tuple(tuple(p) for p in res)
                    got_sliced = None
                    got_score = None
                # ---- sharing discipline ----------------------------------------------
                if entry is not None and canon_a(q) != entry["canon"]:
                    if hash_method == "a":
                        V("entry-shared-between-different-contractions",
                          f"step {si}: query variant {q['why']!r} maps to the entry stored for variant {entry['q']['why']!r} under hash 'a'",
                          variant=q["why"], other=entry["q"]["why"])
                        break
                    counters["probe:shared_entry_hash_b"] += 1
                if entry is not None and entry["q"] is not q and canon_a(q) == entry["canon"]:
                    counters["probe:shared_entry_allowed"] += 1
                # ---- what must the answer be? ------------------------------------------
                if hit and entry["path"] is not None:
                    if got_path != tuple(tuple(p) for p in entry["path"]) and canon_a(q) == entry["canon"] and list(map(list, q["inputs"])) == list(map(list, entry["q"]["inputs"])):
                        V("repeat-returns-different-order", f"step {si}: stored path {entry['path']} but got {got_path}")
                        break
                    if got_sliced is not None and entry["sliced"] is not None and set(got_sliced) != set(entry["sliced"]):
                        V("sliced-indices-differ-from-stored", f"step {si}: stored {entry['sliced']} got {got_sliced}")
                        break
                    if got_sliced:
                        counters["probe:sliced_entry_served"] += 1
                    if got_score is not None and entry["score"] is not None:
                        if abs(got_score - entry["score"]) > 1e-9 * max(1.0, abs(entry["score"])):
                            V("stored-score-not-valid-for-query",
                              f"step {si}: entry stored with score {entry['score']} (for variant {entry['q']['why']!r}) but the tree it yields for "
                              f"variant {q['why']!r} scores {got_score}", variant=q["why"], other=entry["q"]["why"], same_canon=canon_a(q) == entry["canon"])
                            break
                # ---- model update ---------------------------------------------------------
                if searched:
                    if hk not in tainted:
                        # (a key whose store once failed may live on in the writer's memory only: no proof of a disk entry)
                        stored_once = True
                    if st["via"] == "search":
                        new = {"path": got_path, "score": got_score if kind == "hyper" else got_score, "sliced": got_sliced, "canon": canon_a(q), "q": q}
                    else:
                        new = {"path": got_path, "score": None, "sliced": None, "canon": canon_a(q), "q": q}
                    if entry is None or ow is True or entry.get("maybe"):
                        model[hk] = new
                    elif ow == "improved":
                        # the library keeps whichever is better; the returned answer is the kept one
                        if got_score is not None and entry["score"] is not None:
                            if got_score > entry["score"] + 1e-9 * max(1.0, abs(entry["score"])):
                                V("improved-overwrite-made-score-worse",
                                  f"step {si}: entry had score {entry['score']}, after overwrite='improved' the answer scores {got_score}")
                                break
                        new["canon"] = entry["canon"] if canon_a(q) == entry["canon"] else new["canon"]
                        if st["via"] != "search":
                            # path only: we cannot tell the score; keep the better-known bound
                            new["score"] = None
                        model[hk] = new
                elif hit and entry.get("maybe") and st["via"] == "search":
                    # the entry did get stored before the disk error: from now on it is an ordinary acknowledged entry
                    model[hk] = {"path": got_path, "score": got_score, "sliced": got_sliced, "canon": canon_a(q), "q": q}
                if st.get("readback") and directory is not None and not co and st["via"] == "search" and (searched or hit) and hk not in tainted:
                    # a fresh process, cache_only: the directory must hold exactly what this query was just given
                    rcfg = dict(cfg)
                    rcfg.update(cache_only=True, overwrite=False)
                    n1 = sc.n
                    try:
                        rt = make_optimizer(ctg, fix_layout(rcfg), directory).search(*_q_args(q))
                    except Exception as e:
                        V("entry-not-readable-after-answer", f"step {si}: a fresh cache_only process failed right after the query was answered: {type(e).__name__}: {e}")
                        break
                    counters["probe:readback_by_fresh_process"] += 1
                    if sc.n != n1:
                        V("cache-only-searched", f"step {si}: the cache_only read-back ran a search")
                        break
                    why = check_tree(rt, q)
                    if why:
                        V("answer-not-for-this-query", f"step {si} (read-back): {why}", via="search", variant=q["why"])
                        break
                    if rt.get_path() != got_path or set(rt.sliced_inds) != set(got_sliced or ()):
                        V("stored-entry-differs-from-answer", f"step {si}: the query was answered with path {got_path} sliced {got_sliced}, but the entry a fresh "
                          f"process reads back is path {rt.get_path()} sliced {tuple(rt.sliced_inds)}", overwrite=str(ow))
                        break
                if st["via"] == "search" and st.get("mutate") and res is not None:
                    # the caller modifies ITS tree in place; the cache must not be affected
                    try:
                        if st["mutate"] == "remove_ind":
                            free = [ix for ix in sorted(args[2]) if ix not in res.sliced_inds and any(ix in t for t in args[0])]
                            if free:
                                res.remove_ind_(free[st["seed"] % len(free)])
                        else:
                            res.subtree_reconfigure_(subtree_size=3, maxiter=2)
                        counters["probe:caller_mutated_returned_tree"] += 1
                    except Exception:
                        pass
                if stored_once:
                    states.add(prng.H(sorted(model), (cfg.get("overwrite"), cfg.get("cache_only"), cfg.get("directory_split"),
                                                     bool(cfg.get("slicing_opts"))), min(restarts, 4), kind_step, hit, st["via"]))
    finally:
        shutil.rmtree(scratch, ignore_errors=True)
    counters["fs:mutating_ops"] += len(fsim.ops)
    log.add("violations", [(v["oracle"], v["detail"]) for v in violations])
    for v in violations:
        v["sig"]["steps"] = [s["step"] for s in case["steps"]]
    sample = {"kind": kind, "hash_method": hash_method, "directory": bool(directory), "pool": [q["why"] for q in pool],
              "steps": [(s["step"], s.get("q"), s.get("via"), s.get("cfg")) for s in case["steps"]],
              "interesting": restarts >= 2 and bool(directory)}
    return {"violations": violations, "digest": log.digest(), "counters": dict(counters), "faults": dict(faults),
            "states": list(states), "sim_seconds": clk.now, "nontrivial": stored_once, "sample": sample}


def minimise_c14(case, v):
    cls = violation_class(v)
    budget = [120]

    def fails(c):
        if budget[0] <= 0:
            return False
        budget[0] -= 1
        try:
            r = run_case_c14(c)
        except Exception:
            return False
        return any(violation_class(x) == cls for x in r["violations"])

    def with_steps(steps):
        c = dict(case)
        c["steps"] = steps
        return c

    if not fails(case):
        return case, v
    steps = ddmin(list(case["steps"]), lambda s: fails(with_steps(s)), max_tests=80)
    cur = with_steps(steps)
    c2 = copy.deepcopy(cur)
    c2["use_dir"] = False
    if cur["use_dir"] and fails(c2):
        cur = c2
    for k in ("overwrite", "cache_only", "slicing_opts"):
        c2 = copy.deepcopy(cur)
        c2["first_cfg"][k] = False if k != "slicing_opts" else None
        if c2 != cur and fails(c2):
            cur = c2
    budget[0] = 3
    r = run_case_c14(cur)
    vs = [x for x in r["violations"] if violation_class(x) == cls]
    return cur, (vs[0] if vs else v)


# ===========================================================================
# C15
# ===========================================================================

SCENARIOS = ["new-entry", "overwrite-true", "overwrite-improved", "first-subdir", "flat-layout", "second-crash"]


def gen_case_c15(seed, tier):
    sw = prng.stream(seed, "swarm")
    net_rng = prng.stream(seed, "net")
    kind = sw.choice(["hyper", "hyper", "rgreedy"])
    scenario = sw.choice(SCENARIOS)
    base = netgen.gen_network(net_rng, n_min=4, n_max=sw.choice([5, 7]), max_inds=14, dims=(2, 3), max_rank=4, space_cap=2 ** 40, feat={})
    others = []
    for _ in range(sw.randint(0, 3)):
        o = netgen.gen_network(net_rng, n_min=3, n_max=6, max_inds=12, dims=(2, 3), max_rank=4, space_cap=2 ** 40, feat={})
        others.append({"inputs": o[0], "output": o[1], "size_dict": o[2], "why": "other"})
    split = {"new-entry": sw.choice([True, "auto"]), "overwrite-true": sw.choice([True, False, "auto"]),
             "overwrite-improved": sw.choice([True, False, "auto"]), "first-subdir": True, "flat-layout": False,
             "second-crash": sw.choice([True, False])}[scenario]
    cfg = {"kind": kind, "hash_method": "a", "max_repeats": 2, "opt_seed": sw.randrange(2 ** 31), "methods": ["greedy"],
           "minimize": "flops", "directory_split": split}
    if kind == "hyper" and sw.random() < 0.5:
        cfg["slicing_opts"] = {"target_size": 2 ** sw.randint(1, 3)}
    frac = 1.0 if tier == "thorough" else 0.34
    return {"seed": seed, "prop": "C15", "scenario": scenario, "cfg": cfg,
            "target": {"inputs": base[0], "output": base[1], "size_dict": base[2], "why": "target"},
            "others": others, "byte_fraction": frac, "byte_seed": sw.randrange(2 ** 31),
            "flush": sw.choice(["through", "buffered"]),
            "writer_via": sw.choice(["search", "search", "call", "update_from_tree"]),
            # the storing process may have two threads storing the same entry through one optimizer object (pre-empted at
            # line granularity under the seeded baton scheduler); the kill takes all of them at once
            "writer_threads": sw.choice([1, 1, 1, 2]), "writer_sched": {"seed": sw.randrange(2 ** 31), "p": sw.choice([0.05, 0.2, 0.5])},
            "crosscheck": sw.random() < (0.5 if tier == "thorough" else 0.25),
            "only_points": None}


def _anon_ops(ops):
    """Op list with path names replaced by first-appearance tokens (names of
    temporary files may embed pid / thread ident: keep them out of digests)."""
    names = {}
    out = []
    for (kind, rel, nbytes) in ops:
        tok = None
        if rel is not None:
            parts = rel.split(os.sep)
            tok = "/".join("n%d" % names.setdefault(tuple(parts[: i + 1]), len(names)) for i in range(len(parts)))
        out.append((kind, tok, nbytes))
    return out


def _fidelity_view(snap):
    """Directory contents up to the names of temporary files (which may embed
    the pid): the set of directories and the multiset of (parent, bytes)."""
    dirs = sorted(k for k, v in snap.items() if v is None)
    files = sorted((os.path.dirname(k), v) for k, v in snap.items() if v is not None)
    return dirs, files


def _writer(ctg, case, directory, crash_at, exit_mode=False, seed_tag="writer"):
    buffered = case.get("flush") == "buffered"
    """The storing process. Returns (fs, result or None, crashed)."""
    scen = case["scenario"]
    cfg = dict(case["cfg"])
    if scen == "overwrite-true":
        cfg["overwrite"] = True
    elif scen == "overwrite-improved":
        cfg["overwrite"] = "improved"
        cfg["max_repeats"] = 4
        cfg["opt_seed"] = cfg["opt_seed"] + 1
    fsim = simfs.SimFS(os.path.dirname(directory), crash_at=crash_at, exit_mode=exit_mode, buffered=buffered)
    res = None
    crashed = False
    if case.get("writer_threads", 1) >= 2 and case.get("writer_via", "search") in ("search", "call"):
        return _writer_threaded(ctg, case, cfg, directory, fsim, seed_tag)
    with simfs.activate(fsim):
        try:
            prng.reseed_globals(prng.H(case["seed"], seed_tag))
            opt = make_optimizer(ctg, cfg, directory)
            via = case.get("writer_via", "search")
            args = _q_args(case["target"])
            if via == "call":
                path = opt(*args)
                res = {"path": tuple(tuple(p) for p in path), "sliced": None}
            elif via == "update_from_tree":
                # the user stores a tree of their own (e.g. after manual reconfiguration)
                trng = random.Random(prng.H(case["seed"], "user-tree"))
                tree = ctg.ContractionTree.from_path(*args, ssa_path=[tuple(p) for p in netgen.random_ssa_path(trng, len(args[0]))],
                                                     objective="flops" if case["cfg"]["kind"] == "hyper" else None)
                opt.update_from_tree(tree, overwrite=True)
                res = {"path": tree.get_path(), "sliced": tuple(tree.sliced_inds)}
            else:
                tree = opt.search(*args)
                res = {"path": tree.get_path(), "sliced": tuple(tree.sliced_inds)}
        except simfs.SimCrash:
            crashed = True
    return fsim, res, crashed


def _writer_wl(base, name, full):
    if "cotengra" not in full:
        return False
    return base == "reusable.py" or (base == "utils.py" and name in ("__setitem__", "__getitem__", "__contains__", "_get_fname", "get_fname"))


def _writer_threaded(ctg, case, cfg, directory, fsim, seed_tag):
    """Two threads of the storing process put the same entry through one optimizer object."""
    from sim import threads as simthreads

    simthreads.install_shim()
    sc = case["writer_sched"]
    sched = simthreads.Scheduler(simthreads.WalkChooser(random.Random(sc["seed"]), sc["p"]), _writer_wl, max_points=2_000_000)
    results = {}
    via = case.get("writer_via", "search")
    args = _q_args(case["target"])
    with simfs.activate(fsim):
        try:
            prng.reseed_globals(prng.H(case["seed"], seed_tag))
            opt = make_optimizer(ctg, cfg, directory)
        except simfs.SimCrash:
            return fsim, None, True

        def body(i):
            def fn():
                if via == "call":
                    results[i] = {"path": tuple(tuple(p) for p in opt(*args)), "sliced": None}
                else:
                    t = opt.search(*args)
                    results[i] = {"path": t.get_path(), "sliced": tuple(t.sliced_inds)}
            return fn

        # a thread that sleeps (DiskDict's retry loop) lets the other one run
        clk_ = simclock._ACTIVE
        prev_hook = clk_.sleep_hook if clk_ is not None else None
        if clk_ is not None:
            clk_.sleep_hook = lambda: sched.yield_now(sched.index_of_current())
        try:
            errs = sched.run([body(0), body(1)], [2001, 2002], [None, None])
        finally:
            if clk_ is not None:
                clk_.sleep_hook = prev_hook
    crashed = fsim.crashed
    from sim.threads import HarnessError as _HE

    for e in errs:
        if isinstance(e, _HE):
            raise e
    res = None
    ok = [i for i in (0, 1) if i in results]
    if not crashed and ok:
        # (a writer thread that fails without a kill - e.g. refused because the other one is storing the same entry - is
        # that thread's business; the crash-consistency oracle works with what the surviving thread was given)
        res = dict(results[ok[0]])
        if len(ok) == 2:
            res["also"] = results[ok[1]]
    return fsim, res, crashed


def _recover(ctg, case, directory, attempt, crash_at=None, cache_only=False, split=None):
    """A fresh process on the same directory querying the target."""
    cfg = dict(case["cfg"])
    cfg["cache_only"] = cache_only
    if split is not None:
        cfg["directory_split"] = split
    fsim = simfs.SimFS(os.path.dirname(directory), crash_at=crash_at, buffered=case.get("flush") == "buffered")
    out = {"raised": None, "path": None, "sliced": None, "searched": 0, "crashed": False, "why": None}
    with simfs.activate(fsim), SearchCounter() as sc:
        try:
            prng.reseed_globals(prng.H(case["seed"], "recover", attempt))
            opt = make_optimizer(ctg, cfg, directory)
            tree = opt.search(*_q_args(case["target"]))
            out["why"] = check_tree(tree, case["target"])
            out["path"] = tree.get_path()
            out["sliced"] = tuple(tree.sliced_inds)
        except simfs.SimCrash:
            out["crashed"] = True
        except BaseException as e:  # noqa
            out["raised"] = e
        out["searched"] = sc.n
    return out


def run_case_c15(case):
    import cotengra as ctg
    from sim import seams as _seams

    _seams.hermetic_reset()

    simfs.install()
    log = EventLog()
    counters, faults = C(), C()
    states = set()
    violations = []
    scen = case["scenario"]
    kind = case["cfg"]["kind"]
    scratch = tempfile.mkdtemp(prefix="verif-c15-", dir=simfs.scratch_base())
    directory = os.path.join(scratch, "cache")
    clk = simclock.VirtualClock()
    npoints = 0
    enumerated = 0
    absent_exc = [None]

    def V(oracle, detail, **sig):
        s = {"scenario": scen, "kind": kind, "split": case["cfg"]["directory_split"]}
        s.update(sig)
        violations.append({"oracle": oracle, "detail": detail, "sig": s})

    log.add("case", case["seed"], scen, case["cfg"], case["target"]["inputs"])
    try:
        with simclock.activate(clk), warnings.catch_warnings():
            warnings.simplefilter("ignore")
            # ---- setup phase: pre-existing, acknowledged entries -----------------
            ack_others = []
            old = None
            needs_dir = scen != "first-subdir" or case["others"]
            setup_cfg = dict(case["cfg"])
            prng.reseed_globals(prng.H(case["seed"], "setup"))
            if scen == "first-subdir" and not case["others"]:
                pass  # directory does not even exist yet
            else:
                opt = make_optimizer(ctg, setup_cfg, directory)
                for o in case["others"]:
                    t = opt.search(*_q_args(o))
                    ack_others.append((o, t.get_path(), tuple(t.sliced_inds)))
                if scen in ("overwrite-true", "overwrite-improved", "second-crash") and scen != "second-crash":
                    t = opt.search(*_q_args(case["target"]))
                    old = {"path": t.get_path(), "sliced": tuple(t.sliced_inds)}
                opt = None
            base_snap = simfs.snapshot(scratch)
            # ---- recording run (fault-free) ------------------------------------------
            fs0, new, crashed0 = _writer(ctg, case, directory, None)
            if crashed0 or new is None:
                raise RuntimeError("recording run of the writer failed")
            ops = list(fs0.ops)
            # names of temporary files may embed pid / thread ident: keep them out of the digest
            log.add("ops", _anon_ops(ops))
            # enumerate crash points
            points = []
            for k, (okind, rel, nbytes) in enumerate(ops):
                if okind == "write":
                    offs = list(range(0, nbytes + 1))
                    enumerated += len(offs)
                    if case["byte_fraction"] < 1.0:
                        brng = random.Random(prng.H(case["byte_seed"], k))
                        keep = {0, nbytes, 1, max(0, nbytes - 1), nbytes // 2}
                        keep.update(brng.sample(offs, max(1, int(len(offs) * case["byte_fraction"]))))
                        offs = sorted(keep & set(offs))
                    points.extend((k, b) for b in offs)
                else:
                    enumerated += 2
                    points.append((k, 0))
                    # ... and right after it completed (before any un-gated call that may follow)
                    points.append((k, -1))
            points.append((len(ops), 0))  # killed right after the last op
            enumerated += 1
            if case.get("only_points") is not None:
                points = [tuple(p) for p in case["only_points"]]
            valid_paths = {tuple(map(tuple, new["path"]))}
            valid_sliced = {tuple(map(tuple, new["path"])): ({frozenset(new["sliced"])} if new["sliced"] is not None else None)}
            if new.get("also") is not None:
                p2 = tuple(map(tuple, new["also"]["path"]))
                valid_paths.add(p2)
                if new["also"]["sliced"] is not None and valid_sliced.get(p2, set()) is not None:
                    valid_sliced.setdefault(p2, set()).add(frozenset(new["also"]["sliced"]))
                else:
                    valid_sliced.setdefault(p2, None)
                counters["probe:two_writer_threads"] += 1
            if old is not None:
                valid_paths.add(tuple(map(tuple, old["path"])))
                if valid_sliced.get(tuple(map(tuple, old["path"])), set()) is not None:
                    valid_sliced.setdefault(tuple(map(tuple, old["path"])), set()).add(frozenset(old["sliced"]))
            xcheck_left = 2 if case.get("crosscheck") else 0
            for (k, b) in points:
                if violations:
                    break
                simfs.restore(scratch, base_snap)
                fsw, res, crashed = _writer(ctg, case, directory, (k, b))
                npoints += 1
                okind = ops[k][0] if k < len(ops) else "after-last-op"
                if okind == "write":
                    counters["crash:write-torn" if 0 < b < ops[k][2] else "crash:write-boundary"] += 1
                    faults["torn_write" if 0 < b < ops[k][2] else "crash_at_write_boundary"] += 1
                else:
                    counters["crash:" + okind.split(":")[0]] += 1
                    faults["crash_before_" + okind.split(":")[0]] += 1
                if not crashed and k < len(ops):
                    raise RuntimeError(f"crash point {(k, b)} was not reached (ops drifted: {fsw.ops} vs {ops})")
                after_crash = simfs.snapshot(scratch)
                # ---- fidelity cross-check with a real os._exit in a forked child ------
                if xcheck_left and okind in ("write", "open:w+", "replace", "mkdir") and k < len(ops):
                    xcheck_left -= 1
                    simfs.restore(scratch, base_snap)
                    pid = os.fork()
                    if pid == 0:
                        try:
                            _writer(ctg, case, directory, (k, b), exit_mode=True)
                        finally:
                            os._exit(0)
                    _, status = os.waitpid(pid, 0)
                    real = simfs.snapshot(scratch)
                    counters["probe:real_exit_crosscheck"] += 1
                    if _fidelity_view(real) != _fidelity_view(after_crash) or os.waitstatus_to_exitcode(status) != 137:
                        raise RuntimeError(f"simulator fidelity: real-_exit child left different directory contents at crash point {(k, b)} "
                                           f"(exit {os.waitstatus_to_exitcode(status)})")
                    simfs.restore(scratch, after_crash)
                # ---- second crash during the recovery write ------------------------------
                if scen == "second-crash":
                    # the first recovering process itself dies while storing
                    rec_ops_fs = simfs.SimFS(scratch)
                    r0 = _recover(ctg, case, directory, 0, crash_at=None)
                    # determine how many mutating ops that recovery did, then crash in the middle of it
                    simfs.restore(scratch, after_crash)
                    fsr = simfs.SimFS(os.path.dirname(directory), buffered=case.get("flush") == "buffered")
                    with simfs.activate(fsr):
                        try:
                            prng.reseed_globals(prng.H(case["seed"], "recover", 0))
                            o2 = make_optimizer(ctg, dict(case["cfg"]), directory)
                            o2.search(*_q_args(case["target"]))
                        except BaseException:
                            pass
                    nrec = len(fsr.ops)
                    if nrec:
                        simfs.restore(scratch, after_crash)
                        kk = (k * 7 + b) % nrec
                        bb = (b * 13 + 5) % (fsr.ops[kk][2] + 1) if fsr.ops[kk][0] == "write" else 0
                        _recover(ctg, case, directory, 0, crash_at=(kk, bb))
                        counters["probe:second_crash"] += 1
                # ---- later processes ---------------------------------------------------------
                outcome = None
                failures = []
                for attempt in range(1, 4):
                    r = _recover(ctg, case, directory, attempt)
                    if r["raised"] is None:
                        if r["why"]:
                            V("recovered-tree-not-of-query", f"crash point {(k, b)} [{okind}]: {r['why']}", op=okind)
                            break
                        p = tuple(map(tuple, r["path"]))
                        if r["searched"]:
                            outcome = "searched-again"
                        elif p in valid_paths and valid_sliced[p] is not None and frozenset(r["sliced"]) not in valid_sliced[p]:
                            V("served-entry-nobody-acknowledged",
                              f"crash point {(k, b)} [{okind}]: later process returned sliced indices {r['sliced']} without searching; acknowledged: {sorted(map(sorted, valid_sliced[p]))}",
                              op=okind)
                        elif p in valid_paths:
                            outcome = "new-entry-served" if p == tuple(map(tuple, new["path"])) and (old is None or p != tuple(map(tuple, old["path"]))) else "old-entry-served"
                        else:
                            V("served-entry-nobody-acknowledged",
                              f"crash point {(k, b)} [{okind}]: later process returned path {p} without searching; acknowledged/new paths: {sorted(valid_paths)}",
                              op=okind)
                        break
                    failures.append(f"{type(r['raised']).__name__}: {r['raised']}")
                else:
                    V("later-process-fails-permanently",
                      f"crash point op#{k} byte {b} [{okind} {ops[k][1] if k < len(ops) else ''}]: three successive fresh processes failed: {failures}",
                      op=okind.split(":")[0], error=failures[-1].split(":")[0])
                    outcome = "fails"
                if violations:
                    break
                counters["outcome:" + str(outcome)] += 1
                # cache_only reader: either a complete entry or KeyError, nothing else
                rco = _recover(ctg, case, directory, 9, cache_only=True)
                if absent_exc[0] is None:
                    # how does a cache_only reader refuse a contraction that was never stored?  ("behaves as if absent")
                    never = {"inputs": [["y", "z"], ["z", "x"], ["x", "w"]], "output": ["y", "w"], "size_dict": {"w": 2, "x": 3, "y": 2, "z": 5}, "why": "never-stored"}
                    ctl = _recover(ctg, dict(case, target=never), directory, 8, cache_only=True)
                    absent_exc[0] = type(ctl["raised"]) if ctl["raised"] is not None else KeyError
                if rco["raised"] is not None and not isinstance(rco["raised"], (KeyError, absent_exc[0])):
                    V("cache-only-reader-fails", f"crash point {(k, b)} [{okind}]: {type(rco['raised']).__name__}: {rco['raised']}", op=okind.split(":")[0])
                    break
                # auto layout detection must still find the entries
                # ---- entries stored before the crash stay readable ----------------------------
                for (o, opath, osl) in ack_others:
                    cfg2 = dict(case["cfg"])
                    cfg2["cache_only"] = True
                    cfg2["directory_split"] = "auto"
                    fsx = simfs.SimFS(scratch, buffered=case.get("flush") == "buffered")
                    with simfs.activate(fsx):
                        try:
                            o3 = make_optimizer(ctg, cfg2, directory)
                            t = o3.search(*_q_args(o))
                            if tuple(map(tuple, t.get_path())) != tuple(map(tuple, opath)) or tuple(t.sliced_inds) != tuple(osl):
                                V("earlier-entry-changed", f"crash point {(k, b)} [{okind}]: entry stored before the crash now yields a different answer", op=okind.split(":")[0])
                        except BaseException as e:  # noqa
                            V("earlier-entry-unreadable", f"crash point {(k, b)} [{okind}]: entry stored before the crash: {type(e).__name__}: {e}",
                              op=okind.split(":")[0], error=type(e).__name__)
                    counters["probe:other_entries_checked"] += 1
                    if violations:
                        break
                bucket = "na" if okind != "write" else ("0" if b == 0 else ("full" if b == ops[k][2] else ("lt16" if b < 16 else "mid")))
                states.add(prng.H(scen, okind, bucket, outcome, kind, case.get("flush"), case.get("writer_via"), len(case["others"]),
                                  str(case["cfg"]["directory_split"]), bool(case["cfg"].get("slicing_opts"))))
                log.add("point", k, b, okind, outcome)
    finally:
        shutil.rmtree(scratch, ignore_errors=True)
    counters["crash_points"] += npoints
    counters["crash_points_enumerated"] += enumerated
    counters["scenario:" + scen] += 1
    counters["flush:" + case.get("flush", "through")] += 1
    counters["writer_via:" + case.get("writer_via", "search")] += 1
    log.add("violations", [(v["oracle"], v["detail"]) for v in violations])
    sample = {"scenario": scen, "kind": kind, "layout_split": case["cfg"]["directory_split"],
              "writer_ops": _anon_ops(ops) if "ops" in dir() else None,
              "crash_points": npoints, "pre_existing_entries": len(case["others"]) + (1 if scen.startswith("overwrite") else 0)}
    return {"violations": violations, "digest": log.digest(), "counters": dict(counters), "faults": dict(faults),
            "states": list(states), "sim_seconds": clk.now, "nontrivial": npoints > 3, "sample": sample}


def minimise_c15(case, v):
    """Reduce to the single crash point that fails."""
    cls = violation_class(v)
    d = v["detail"]
    import re

    m = re.search(r"crash point (?:op#(\d+) byte (\d+)|\((\d+), (\d+)\))", d)
    if not m:
        return case, v
    k = int(m.group(1) or m.group(3))
    b = int(m.group(2) or m.group(4))
    c = copy.deepcopy(case)
    c["only_points"] = [[k, b]]
    c["crosscheck"] = False
    r = run_case_c15(c)
    vs = [x for x in r["violations"] if violation_class(x) == cls]
    if not vs:
        return case, v
    c2 = copy.deepcopy(c)
    c2["others"] = []
    r2 = run_case_c15(c2)
    vs2 = [x for x in r2["violations"] if violation_class(x) == cls]
    if vs2:
        return c2, vs2[0]
    return c, vs[0]


# ---------------------------------------------------------------------------
# dispatch


def gen_case(prop, seed, tier):
    return gen_case_c14(seed, tier) if prop == "C14" else gen_case_c15(seed, tier)


def run_case(prop, case):
    return run_case_c14(case) if prop == "C14" else run_case_c15(case)


def minimise(prop, case, v):
    return minimise_c14(case, v) if prop == "C14" else minimise_c15(case, v)


def evidence_extra(prop, agg):
    if prop != "C15":
        return {}
    c = agg["counters"]
    return {"crash_points": c.get("crash_points", 0), "crash_points_enumerated": c.get("crash_points_enumerated", 0),
            "exhaustive": c.get("crash_points", 0) >= c.get("crash_points_enumerated", 1),
            "explanation": "crash_points explored / enumerated over all sampled scenarios; exhaustive within each scenario when equal"}
