"""Engine `cache` — call histories over cotengra's process-global in-memory
caches with eviction faults; every call runs in lock-step against the same
call with caching disabled (and the internal lru_caches bypassed).
Serves C13.  DESIGN.md §4 C13.
"""

import copy
import functools
import random
import warnings

import numpy as np

from sim import netgen, prng
from sim.trace import EventLog, canon, ddmin

CASE_TIMEOUT = 120
LEVEL = {"C13": "exploration"}
PLAN = {"C13": {
    "quick": {"runs": 24000, "wall_cap": 110, "chunk": 100, "selftest": 8},
    "thorough": {"runs": 900000, "wall_cap": 1700, "chunk": 400, "selftest": 40},
}}
RULE = {"C13": (
    "one evaluation = one seeded history of 4-30 calls (einsum, einsum_expression, array_contract, "
    "array_contract_expression, array_contract_path, ncon, re-use of a previously returned expression on fresh arrays) "
    "over a pool of 3-8 contractions (a third of the pools with size-1 dimensions) that differ from a base in ONE cache-key component (output order, output "
    "dropped/added, one size, labels relabelled / negative ints / mixed types, tuple vs list, optimize value or path "
    "form, strip_exponent / implementation / prefer_einsum / sort_contraction_indices / canonicalize kwargs), starting "
    "from cold process-global caches, with eviction faults between calls; each call is compared with the same call "
    "with cache disabled and internal lru_caches bypassed. distinct_nontrivial counts distinct (sorted multiset of "
    "key-component differences called so far, api, cache-hit/miss, eviction pattern) states after the second call."
)}
COMPONENTS = {
    "real": ["cotengra.interface (all public entry points, _PATH_CACHE, _CONTRACT_EXPR_CACHE, dispatch caches)",
             "cotengra.contract (cached equation/shape parsers, Contractor)", "cotengra.utils (parse_einsum_input, canonicalize_inputs)",
             "presets greedy / optimal / auto (small sizes)"],
    "stub": ["cache eviction: simulator clears / shrinks the process-global dict and lru caches between calls",
             "reference run: same call with cache=False and the module-level lru_caches rebound to their undecorated functions"],
}
ASSUMPTIONS = {"C13": [
    "the reference for 'correct' is the same cotengra call with caching disabled, as the property states; numpy.einsum is used only to say which side is wrong",
    "every run starts from cold process-global caches so that a run is a pure function of its case",
    "hash-randomised str labels cannot collide in practice; int / negative-int / bool / float labels are used to reach equal-hash keys",
    "contractions are small enough (<= 6 tensors) for the 'auto' preset to be deterministic; a path comparison is skipped when two uncached calls disagree",
]}
EXPECTED_PROBES = {"C13": ["probe:expr_cache_hit", "probe:path_cache_hit", "fault:evict_expr_cache", "fault:evict_path_cache",
                           "fault:lru_shrunk", "fault:lru_cleared", "probe:expr_reused_on_new_arrays", "probe:negative_int_labels",
                           "probe:list_inputs_unhashable", "fault:pathfinder_failed_once", "api:einsum", "api:ncon", "api:expr_constants", "probe:constants_mutated_in_place",
                           "api:array_contract_path", "api:einsum_expression", "probe:explicit_size_dict", "probe:opt_einsum_namespace", "probe:optimizer_instance_shared", "probe:caller_edited_its_path_object"]}


def violation_class(v):
    return (v["oracle"],)


class C(dict):
    def __missing__(self, k):
        return 0


# ---------------------------------------------------------------------------
# module-level cache control (the seams)

_LRU_SITES = [
    ("cotengra.contract", "_sanitize_equation"),
    ("cotengra.contract", "_parse_einsum_single"),
    ("cotengra.contract", "_parse_eq_to_batch_matmul"),
    ("cotengra.contract", "_parse_tensordot_axes_to_matmul"),
    ("cotengra.utils", "parse_equation_ellipses"),
    ("cotengra.interface", "preset_to_optimizer"),
    ("cotengra.interface", "can_hash_optimize"),
]
_ORIG = {}
_FLAKY = {"fail": False, "fail_auto": False}


def _mods():
    import importlib

    return {m: importlib.import_module(m) for m in {s[0] for s in _LRU_SITES}}


def _remember():
    if _ORIG:
        return
    mods = _mods()
    for m, name in _LRU_SITES:
        _ORIG[(m, name)] = getattr(mods[m], name)


def _seam(mod, name):
    """A module-level cache of the interface, by name. These private dicts are the seam the eviction faults act on; if a
    refactored library keeps that state elsewhere the faults become no-ops (the lock-step comparison is unaffected)."""
    d = getattr(mod, name, None)
    return d if isinstance(d, dict) else {}


def cold_start():
    """Reset every process-global cache: a run is a pure function of its case."""
    import cotengra.interface as I

    _remember()
    from sim import seams as _seams

    _seams.hermetic_reset()
    mods = _mods()
    for (m, name), fn in _ORIG.items():
        setattr(mods[m], name, fn)
        fn.cache_clear()
    _seam(I, "_PATH_CACHE").clear()
    _seam(I, "_CONTRACT_EXPR_CACHE").clear()
    _seam(I, "_find_path_handlers").clear()
    _seam(I, "_find_tree_handlers").clear()
    _seam(I, "_HASH_OPTIMIZE_PREPARERS").clear()
    _FLAKY["fail"] = False
    _FLAKY["fail_auto"] = False
    import cotengra.presets as P

    # the module-level preset optimizers are process-global state too: back to their state at import
    objs = [getattr(P, n) for n in ("auto_optimize", "auto_hq_optimize", "greedy_optimize", "optimal_optimize", "optimal_outer_optimize")
            if hasattr(P, n)]
    for o in objs:
        d = getattr(o, "__dict__", None)
        if d is None:
            continue
        if id(o) not in _PRISTINE:
            _PRISTINE[id(o)] = {k: (v.copy() if isinstance(v, dict) else v) for k, v in d.items() if k != "_optimize_optimal_fn"}
        for k in list(d):
            if k not in _PRISTINE[id(o)] and k != "_optimize_optimal_fn":
                del d[k]
        for k, v in _PRISTINE[id(o)].items():
            d[k] = v.copy() if isinstance(v, dict) else v
    _INSTANCES["subject"] = _new_instance()
    _INSTANCES["use_subject"] = True
    _HELD_PATHS.clear()


def shrink_lrus(maxsize):
    mods = _mods()
    for (m, name), fn in _ORIG.items():
        if name in ("preset_to_optimizer", "can_hash_optimize"):
            continue
        setattr(mods[m], name, functools.lru_cache(maxsize)(fn.__wrapped__))


class cold_preset_state:
    """Reference side: the string presets keep caching optimizers per thread; start them empty (restored afterwards)."""

    def __enter__(self):
        import cotengra.presets as P

        self.saved = []
        objs = [getattr(P, n) for n in ("auto_optimize", "auto_hq_optimize", "greedy_optimize", "optimal_optimize", "optimal_outer_optimize")
                if hasattr(P, n)]
        for o in objs:
            d = getattr(o, "__dict__", None)
            if d is None or id(o) not in _PRISTINE:
                continue
            self.saved.append((o, dict(d)))
            keep = d.get("_optimize_optimal_fn")
            d.clear()
            d.update({k: (v.copy() if isinstance(v, dict) else v) for k, v in _PRISTINE[id(o)].items()})
            if keep is not None:
                d["_optimize_optimal_fn"] = keep
        _INSTANCES["use_subject"] = False
        return self

    def __exit__(self, *exc):
        for o, d in self.saved:
            o.__dict__.clear()
            o.__dict__.update(d)
        _INSTANCES["use_subject"] = True
        return False


def _arm_auto_fault():
    """The exact path finder behind the 'auto' preset fails once (fault site for small contractions)."""
    import cotengra.presets as P

    o = P.auto_optimize
    real = o._optimize_optimal_fn

    def flaky(*a, **k):
        if _FLAKY["fail_auto"]:
            _FLAKY["fail_auto"] = False
            raise RuntimeError("injected pathfinder failure")
        return real(*a, **k)

    if not getattr(real, "_sim_flaky", False):
        flaky._sim_flaky = True
        flaky._real = real
        o._optimize_optimal_fn = flaky


class uncached_internals:
    """Reference side: bypass the module-level lru caches entirely and start
    from empty per-type dispatch caches (restored afterwards)."""

    def __enter__(self):
        import cotengra.interface as I

        mods = _mods()
        self.saved = {}
        for (m, name), fn in _ORIG.items():
            self.saved[(m, name)] = getattr(mods[m], name)
            setattr(mods[m], name, fn.__wrapped__)
        self.dicts = []
        for d in (_seam(I, "_find_path_handlers"), _seam(I, "_find_tree_handlers"), _seam(I, "_HASH_OPTIMIZE_PREPARERS")):
            self.dicts.append((d, dict(d)))
            d.clear()
        return self

    def __exit__(self, *exc):
        mods = _mods()
        for (m, name), fn in self.saved.items():
            setattr(mods[m], name, fn)
        for d, old in self.dicts:
            d.clear()
            d.update(old)
        return False


def _flaky_preset(inputs, output, size_dict, **kw):
    if _FLAKY["fail"]:
        _FLAKY["fail"] = False
        raise RuntimeError("injected pathfinder failure")
    from cotengra.interface import _PRESETS_PATH

    return _PRESETS_PATH["greedy"](inputs, output, size_dict, **kw)


def _register_flaky():
    import cotengra.interface as I

    if "sim-flaky" not in I._PRESETS_PATH:
        I.register_preset("sim-flaky", _flaky_preset, register_opt_einsum=False)


# ---------------------------------------------------------------------------
# generation


def _relabel(spec, mapping):
    s = copy.deepcopy(spec)
    s["inputs"] = [[mapping[ix] for ix in t] for t in spec["inputs"]]
    s["output"] = [mapping[ix] for ix in spec["output"]]
    s["sizes"] = [[mapping[ix], d] for ix, d in spec["sizes"]]
    if spec.get("optimize_kind") == "edge":
        s["optimize"] = [mapping[ix] for ix in spec["optimize"]]
    return s


def _gen_pool(rng, sw):
    feat = {"hyper": sw.random() < 0.3, "out_hyper": sw.random() < 0.3, "repeated": sw.random() < 0.2,
            "dangling_sum": sw.random() < 0.3, "scalar": sw.random() < 0.1, "outer": sw.random() < 0.15}
    nmax = sw.choice([3, 4, 6])
    dims = sw.choice([(2, 2, 3), (2, 2, 3), (1, 2, 2, 3)])  # a third of the pools have dimensions of size 1
    while True:
        inputs, output, size_dict = netgen.gen_network(rng, n_min=2, n_max=nmax, max_inds=9, dims=dims,
                                                       max_rank=4, space_cap=2 ** 14, feat=feat)
        if size_dict:
            break
    n = len(inputs)
    base = {"inputs": inputs, "output": output, "sizes": [[k, v] for k, v in size_dict.items()],
            "optimize": sw.choice(["greedy", "greedy", "auto", "optimal"]),
            "optimize_kind": "preset", "kwargs": {}, "canonicalize": True, "as_list": False, "diff": "base"}
    pool = [base]

    def add(s, diff):
        s = copy.deepcopy(s)
        s["diff"] = diff
        pool.append(s)

    # output permuted
    if len(output) >= 2:
        s = copy.deepcopy(base)
        o = list(output)
        for _ in range(6):
            rng.shuffle(o)
            if o != list(output):
                break
        s["output"] = o
        add(s, "output-permuted")
    if output:
        s = copy.deepcopy(base)
        s["output"] = list(output)[:-1]
        add(s, "output-dropped")
    extra = [ix for ix in size_dict if ix not in output]
    if extra:
        s = copy.deepcopy(base)
        s["output"] = list(output) + [rng.choice(extra)]
        add(s, "output-added")
    # one size changed
    s = copy.deepcopy(base)
    k = rng.randrange(len(s["sizes"]))
    s["sizes"][k][1] = s["sizes"][k][1] + 1
    add(s, "size-changed")
    # the same structure with the sizes permuted among the indices
    if len({d for _, d in base["sizes"]}) >= 2:
        s = copy.deepcopy(base)
        vals = [d for _, d in s["sizes"]]
        for _ in range(6):
            rng.shuffle(vals)
            if vals != [d for _, d in base["sizes"]]:
                break
        s["sizes"] = [[k, v] for (k, _), v in zip(s["sizes"], vals)]
        add(s, "sizes-permuted")
    # optimize variants
    for opt in rng.sample(["optimal", "auto", "sim-flaky", "opt_einsum:greedy", "opt_einsum:optimal", "opt_einsum:auto"], 3):
        s = copy.deepcopy(base)
        s["optimize"] = opt
        add(s, "optimize-" + opt)
    if n >= 2:
        s = copy.deepcopy(base)
        s["optimize"] = [list(p) for p in _lin_path(rng, n)]
        s["optimize_kind"] = rng.choice(["path-tuple", "path-list"])
        add(s, "optimize-explicit-path")
        s2 = copy.deepcopy(s)
        s2["optimize"] = [list(p) for p in _lin_path(rng, n)]
        add(s2, "optimize-explicit-path-2")
        s3 = copy.deepcopy(base)
        s3["optimize"] = [list(p) for p in _lin_path(rng, n)]
        s3["optimize_kind"] = "path-lol"
        add(s3, "optimize-path-list-of-lists")
    # edge path (an order of indices to eliminate) given as a tuple / list of labels
    names_all = [k for k, _ in base["sizes"]]
    if len(names_all) >= 2:
        s = copy.deepcopy(base)
        ep = names_all[:]
        rng.shuffle(ep)
        s["optimize"] = ep
        s["optimize_kind"] = "edge"
        s["edge_as_list"] = rng.random() < 0.5
        add(s, "optimize-edge-path")
    # seeded optimizer objects (two different seeds) as `optimize` on the same contraction
    if sw.random() < 0.35:
        for k in (1, 2):
            s2 = copy.deepcopy(base)
            s2["optimize"] = f"<RandomGreedyOptimizer seed={k}>"
            s2["optimize_kind"] = "seeded-object"
            s2["opt_seed"] = 1000 * k + rng.randrange(100)
            add(s2, f"seeded-optimizer-object-{k}")
    # a caching optimizer instance as `optimize`, on the base and on look-alikes of it
    if sw.random() < 0.4:
        for sp in list(pool):
            if sp["diff"] in ("base", "output-permuted", "size-changed", "sizes-permuted") and sp["optimize_kind"] == "preset":
                s2 = copy.deepcopy(sp)
                s2["optimize"] = "<ReusableHyperOptimizer instance>"
                s2["optimize_kind"] = "reusable-instance"
                add(s2, "instance+" + sp["diff"])
        if cands_perm := [i for i, t in enumerate(base["inputs"]) if len(set(t)) >= 2]:
            s2 = copy.deepcopy(base)
            i = rng.choice(cands_perm)
            t2 = list(s2["inputs"][i])
            for _ in range(6):
                rng.shuffle(t2)
                if t2 != list(base["inputs"][i]):
                    break
            s2["inputs"][i] = t2
            s2["optimize"] = "<ReusableHyperOptimizer instance>"
            s2["optimize_kind"] = "reusable-instance"
            add(s2, "instance+term-permuted")
    # kwargs variants
    for kw in rng.sample([{"strip_exponent": True}, {"implementation": "cotengra"}, {"implementation": "autoray"},
                          {"prefer_einsum": True}, {"sort_contraction_indices": True}], 2):
        s = copy.deepcopy(base)
        s["kwargs"] = kw
        add(s, "kwargs-" + next(iter(kw)))
    # label variants (ncon style ints incl. negatives whose hashes collide, mixed types)
    names = [k for k, _ in base["sizes"]]
    style = sw.choice(["ncon", "ncon", "mixed", "posint"])
    if style == "ncon":
        outs = list(output)
        m = {}
        for i, ix in enumerate(outs):
            m[ix] = -(i + 1)
        c = 1
        for ix in names:
            if ix not in m:
                m[ix] = c
                c += 1
    elif style == "posint":
        m = {ix: i for i, ix in enumerate(names)}
    else:
        alt = [0, 1, -1, -2, "x", "y", 2, 3, "z", 7, 8, 9, 10]
        m = {ix: alt[i] for i, ix in enumerate(names)}
    lab = _relabel(base, m)
    lab["canonicalize"] = False
    add(lab, "labels-" + style)
    for sp in list(pool):
        if sp["diff"] in ("output-permuted", "output-dropped", "size-changed") and sw.random() < 0.8:
            l2 = _relabel(sp, m)
            l2["canonicalize"] = False
            add(l2, "labels-" + style + "+" + sp["diff"])
    # canonicalize off with str labels; list inputs
    s = copy.deepcopy(base)
    s["canonicalize"] = False
    add(s, "canonicalize-off")
    s = copy.deepcopy(base)
    s["canonicalize"] = False
    s["as_list"] = True
    add(s, "list-inputs")
    # how the caller supplies the sizes: via shapes, or an explicit size_dict built in some insertion order
    mode = sw.choice(["shapes", "shapes", "dict-sorted-by-size", "dict-reversed"])
    for sp in pool:
        sp["sizes_as"] = mode
    return pool


def _lin_path(rng, n):
    rem = n
    path = []
    while rem > 1:
        i, j = sorted(rng.sample(range(rem), 2))
        path.append((i, j))
        rem -= 1
    return path


APIS = ["array_contract", "array_contract", "array_contract_expression", "array_contract_path", "einsum",
        "einsum_expression", "ncon", "expr_reuse", "expr_reuse", "expr_constants", "expr_constants_inplace"]


def gen_case(prop, seed, tier):
    sw = prng.stream(seed, "swarm")
    rng = prng.stream(seed, "net")
    ops_rng = prng.stream(seed, "ops")
    pool = _gen_pool(rng, sw)
    base = pool[0]
    rest = pool[1:]
    rng.shuffle(rest)
    pool = [base] + rest[: sw.randint(2, 7)]
    ncalls = sw.randint(4, 30)
    evict_rate = sw.choice([0.0, 0.0, 0.15, 0.4])
    calls = []
    for _ in range(ncalls):
        c = {"api": ops_rng.choice(APIS), "spec": ops_rng.randrange(len(pool)), "aseed": ops_rng.randrange(2 ** 31)}
        if ops_rng.random() < evict_rate:
            c["evict"] = ops_rng.sample(["expr", "path", "handlers", "preparers", "lru"], ops_rng.randint(1, 3))
            c["evict_frac"] = ops_rng.choice([1.0, 0.5])
        if ops_rng.random() < 0.12:
            c["fail_pathfinder"] = True
        calls.append(c)
    return {"seed": seed, "pool": pool, "calls": calls, "lru_maxsize": sw.choice([None, None, 1, 2, 4])}


# ---------------------------------------------------------------------------
# execution


def _materialise(spec):
    """Turn a JSON-able spec into call arguments."""
    conv = (lambda t: list(t)) if spec.get("as_list") else (lambda t: tuple(t))
    inputs = [conv(t) for t in spec["inputs"]]
    inputs = inputs if spec.get("as_list") else tuple(inputs)
    output = conv(spec["output"])
    sizes = {k if not isinstance(k, list) else tuple(k): v for k, v in ((a, b) for a, b in spec["sizes"])}
    opt = spec["optimize"]
    kind = spec.get("optimize_kind", "preset")
    if kind == "path-tuple":
        opt = tuple(tuple(p) for p in opt)
    elif kind == "path-list":
        opt = [tuple(p) for p in opt]
    elif kind == "edge":
        opt = list(opt) if spec.get("edge_as_list") else tuple(opt)
    elif kind == "path-lol":
        # an explicit path kept by the caller as a list of lists (e.g. loaded from json)
        orig = [list(p) for p in opt]
        key = spec["diff"]
        if not _INSTANCES["use_subject"]:
            opt = [list(p) for p in orig]
        elif key not in _HELD_PATHS:
            _HELD_PATHS[key] = [list(p) for p in orig]
            opt = _HELD_PATHS[key]  # first call hands over the caller's own object
        else:
            # the caller has meanwhile edited ITS object in place ... and now asks with a fresh, equal-to-the-original path
            for inner in _HELD_PATHS[key]:
                inner.reverse()
            opt = [list(p) for p in orig]
    elif kind == "seeded-object":
        # a fresh seeded optimizer object per call (never hashable for the interface caches)
        from cotengra.pathfinders.path_basic import RandomGreedyOptimizer

        opt = RandomGreedyOptimizer(max_repeats=3, seed=spec["opt_seed"], parallel=False, temperature=(0.5, 1.0))
    elif kind == "reusable-instance":
        # one caching optimizer OBJECT handed to many calls (subject); the reference side gets a fresh one per call
        opt = _INSTANCES["subject"] if _INSTANCES["use_subject"] else _new_instance()
    return inputs, output, sizes, opt


_INSTANCES = {"subject": None, "use_subject": True}
_PRISTINE = {}
_HELD_PATHS = {}


def _new_instance():
    import cotengra as ctg

    return ctg.ReusableHyperOptimizer(methods=["greedy"], max_repeats=2, optlib="random", parallel=False, seed=7)


def _arrays(spec, sizes, aseed):
    g = np.random.default_rng(aseed)
    return [g.uniform(-1, 1, size=tuple(sizes[ix] for ix in t)) for t in spec["inputs"]]


def _truth(spec, arrays):
    labels = []
    for t in spec["inputs"]:
        for ix in t:
            if ix not in labels:
                labels.append(ix)
    for ix in spec["output"]:
        if ix not in labels:
            labels.append(ix)
    m = {ix: netgen.SYMS[i] for i, ix in enumerate(labels)}
    eq = ",".join("".join(m[ix] for ix in t) for t in spec["inputs"]) + "->" + "".join(m[ix] for ix in spec["output"])
    return np.einsum(eq, *arrays, optimize=False), np.einsum(eq, *[np.abs(a) for a in arrays], optimize=False)


def _is_str_labels(spec):
    return all(isinstance(ix, str) and len(ix) == 1 for t in spec["inputs"] for ix in t) and all(
        isinstance(ix, str) and len(ix) == 1 for ix in spec["output"])


def _is_ncon_labels(spec):
    flat = [ix for t in spec["inputs"] for ix in t]
    if not all(isinstance(ix, int) and not isinstance(ix, bool) and ix != 0 for ix in flat):
        return False
    neg = sorted({ix for ix in flat if ix < 0}, reverse=True)
    return list(spec["output"]) == neg


def _call(ctg, api, spec, aseed, cache, held_expr=None):
    """Perform one API call. Returns ('value', ndarray) | ('path', tuple) | ('expr', callable, value)."""
    inputs, output, sizes, opt = _materialise(spec)
    arrays = _arrays(spec, sizes, aseed)
    kw = dict(spec["kwargs"])
    shapes = tuple(a.shape for a in arrays)
    if api == "array_contract":
        out = ctg.array_contract(arrays, inputs, output, optimize=opt, cache_expression=cache,
                                 canonicalize=spec["canonicalize"], **kw)
        return ("value", _val(out, kw))
    if api == "ncon":
        kw2 = dict(kw)
        out = ctg.ncon(arrays, [list(t) for t in spec["inputs"]], optimize=opt, cache_expression=cache,
                       canonicalize=spec["canonicalize"], **kw2)
        return ("value", _val(out, kw))
    szkw = {"shapes": shapes}
    if spec.get("sizes_as", "shapes") != "shapes":
        items = list(sizes.items())
        if spec["sizes_as"] == "dict-sorted-by-size":
            items.sort(key=lambda kv: (kv[1], str(kv[0])))
        else:
            items.reverse()
        szkw = {"size_dict": dict(items)}
    if api in ("array_contract_expression", "expr_reuse"):
        if api == "expr_reuse" and held_expr is not None:
            expr = held_expr
        else:
            expr = ctg.array_contract_expression(inputs, output, optimize=opt, cache=cache,
                                                 canonicalize=spec["canonicalize"], **szkw, **kw)
        return ("expr", expr, _val(expr(*arrays), kw))
    if api == "expr_constants":
        crng = random.Random(aseed)
        n = len(arrays)
        k = sorted(crng.sample(range(n), crng.randint(1, max(1, n - 1))))
        constants = {i: arrays[i] for i in k}
        expr = ctg.array_contract_expression(inputs, output, shapes=shapes, optimize=opt, constants=constants, cache=cache,
                                             canonicalize=spec["canonicalize"], **kw)
        return ("value", _val(expr(*[a for i, a in enumerate(arrays) if i not in k]), kw))
    if api == "expr_constants_inplace":
        # the caller keeps its constant arrays and updates them IN PLACE between calls
        crng = random.Random(prng.H("consts", spec["diff"]))
        n = len(arrays)
        k = sorted(crng.sample(range(n), max(1, n - 1)))  # all but one input are constants
        store = held_expr if isinstance(held_expr, dict) else {}
        if "arrays" not in store:
            store["arrays"] = {i: arrays[i].copy() for i in k}
        elif store.get("mutate"):
            for i in k:
                store["arrays"][i] *= 1.0 + (aseed % 7) / 3.0
        constants = dict(store["arrays"])
        expr = ctg.array_contract_expression(inputs, output, shapes=shapes, optimize=opt, constants=constants, cache=cache,
                                             canonicalize=spec["canonicalize"], **kw)
        full = [constants[i] if i in constants else a for i, a in enumerate(arrays)]
        return ("value-arrays", full, _val(expr(*[a for i, a in enumerate(arrays) if i not in k]), kw))
    if api == "array_contract_path":
        p = ctg.array_contract_path(inputs, output, optimize=opt, cache=cache, canonicalize=spec["canonicalize"], **szkw)
        return ("path", tuple(tuple(x) for x in p))
    eq = ",".join("".join(t) for t in spec["inputs"]) + "->" + "".join(spec["output"])
    kw.pop("canonicalize", None)
    if api == "einsum" and aseed % 3 == 0:
        # implicit-output form when it denotes the same contraction
        lhs = eq.split("->")[0]
        flat = lhs.replace(",", "")
        implicit = "".join(sorted(c for c in set(flat) if flat.count(c) == 1))
        if implicit == "".join(spec["output"]):
            eq = lhs
    if api == "einsum":
        out = ctg.einsum(eq, *arrays, optimize=opt, cache_expression=cache, **kw)
        return ("value", _val(out, kw))
    if api == "einsum_expression":
        expr = ctg.einsum_expression(eq, *shapes, optimize=opt, cache=cache, **kw)
        return ("expr", expr, _val(expr(*arrays), kw))
    raise ValueError(api)


def _val(out, kw):
    if kw.get("strip_exponent"):
        m, e = out
        return np.asarray(m) * 10.0 ** float(e)
    return np.asarray(out)


def _api_ok(api, spec):
    if api in ("einsum", "einsum_expression"):
        return _is_str_labels(spec) and spec.get("optimize_kind") != "edge"
    if api == "ncon":
        return _is_ncon_labels(spec)
    return True


def run_case(prop, case):
    import cotengra as ctg
    import cotengra.interface as I

    log = EventLog()
    counters, faults = C(), C()
    states = set()
    violations = []
    _register_flaky()
    _arm_auto_fault()
    cold_start()
    if case.get("lru_maxsize"):
        shrink_lrus(case["lru_maxsize"])
        faults["fault:lru_shrunk"] += 1
    pool = case["pool"]
    held = {}  # (spec index) -> cached expression returned earlier
    const_store = {}  # (spec index) -> the caller's constant arrays (updated in place between calls)
    seen_diffs = []
    log.add("case", case["seed"], [(s["diff"], s["inputs"], s["output"], s["sizes"], s["optimize"], s["kwargs"]) for s in pool])

    def V(oracle, detail, **sig):
        violations.append({"oracle": oracle, "detail": detail, "sig": dict(sig)})

    with warnings.catch_warnings():
        warnings.simplefilter("ignore")
        for ci, c in enumerate(case["calls"]):
            if violations:
                break
            spec = pool[c["spec"] % len(pool)]
            api = c["api"]
            if not _api_ok(api, spec):
                api = "array_contract"
            si = c["spec"] % len(pool)
            # ---- faults: eviction between calls ---------------------------------
            ev = c.get("evict") or []
            erng = random.Random(prng.H(case["seed"], "evict", ci))
            for what in ev:
                if what == "expr":
                    _evict(_seam(I, "_CONTRACT_EXPR_CACHE"), c.get("evict_frac", 1.0), erng)
                    faults["fault:evict_expr_cache"] += 1
                elif what == "path":
                    _evict(_seam(I, "_PATH_CACHE"), c.get("evict_frac", 1.0), erng)
                    faults["fault:evict_path_cache"] += 1
                elif what == "handlers":
                    _seam(I, "_find_path_handlers").clear()
                    _seam(I, "_find_tree_handlers").clear()
                    faults["fault:evict_dispatch_handlers"] += 1
                elif what == "preparers":
                    _seam(I, "_HASH_OPTIMIZE_PREPARERS").clear()
                    faults["fault:evict_hash_preparers"] += 1
                elif what == "lru":
                    mods = _mods()
                    for (m, name) in _ORIG:
                        getattr(mods[m], name).cache_clear()
                    faults["fault:lru_cleared"] += 1
            n_expr0, n_path0 = len(_seam(I, "_CONTRACT_EXPR_CACHE")), len(_seam(I, "_PATH_CACHE"))
            # ---- fault: the path finder fails once ----------------------------------
            injected_fail = False
            if c.get("fail_pathfinder") and spec["optimize"] == "sim-flaky":
                _FLAKY["fail"] = True
                injected_fail = True
            if c.get("fail_pathfinder") and spec["optimize"] == "auto":
                _FLAKY["fail_auto"] = True
                injected_fail = True
            # ---- subject: caching on, shared process state --------------------------
            prng.reseed_globals(prng.H(case["seed"], "call", ci))
            sub_err = None
            sub = None
            try:
                if api == "expr_constants_inplace":
                    st = const_store.setdefault(si, {})
                    st["mutate"] = True
                    sub = _call(ctg, api, spec, c["aseed"], True, held_expr=st)
                    counters["probe:constants_mutated_in_place"] += 1 if st.get("calls") else 0
                    st["calls"] = st.get("calls", 0) + 1
                else:
                    sub = _call(ctg, api, spec, c["aseed"], True, held_expr=held.get(si) if api == "expr_reuse" else None)
            except Exception as e:
                sub_err = e
            consumed_fail = injected_fail and not (_FLAKY["fail"] or _FLAKY["fail_auto"])
            _FLAKY["fail"] = False
            _FLAKY["fail_auto"] = False
            if consumed_fail:
                faults["fault:pathfinder_failed_once"] += 1
                # the failed call may fail (or recover by some fallback of its own); whatever it leaves in the caches is
                # judged by the calls that follow, which must still agree with their uncached twins
                if sub_err is None:
                    counters["probe:injected_failure_absorbed_by_the_call"] += 1
                if len(_seam(I, "_CONTRACT_EXPR_CACHE")) != n_expr0 or len(_seam(I, "_PATH_CACHE")) != n_path0:
                    counters["probe:failed_call_left_cache_entry"] += 1
                log.add("call", ci, api, spec["diff"], "injected-failure", sub_err is None)
                continue
            grew_expr = len(_seam(I, "_CONTRACT_EXPR_CACHE")) > n_expr0
            grew_path = len(_seam(I, "_PATH_CACHE")) > n_path0
            # ---- reference: same call, no caching anywhere -----------------------------
            prng.reseed_globals(prng.H(case["seed"], "call", ci))
            ref_err = None
            ref = None
            with uncached_internals(), cold_preset_state():
                snap_e, snap_p = dict(_seam(I, "_CONTRACT_EXPR_CACHE")), dict(_seam(I, "_PATH_CACHE"))
                try:
                    if api == "expr_constants_inplace":
                        st = const_store.setdefault(si, {})
                        st["mutate"] = False
                        ref = _call(ctg, api, spec, c["aseed"], False, held_expr=st)
                    else:
                        ref = _call(ctg, api, spec, c["aseed"], False, held_expr=None)
                except Exception as e:
                    ref_err = e
                # the reference must not touch the subject's caches
                _seam(I, "_CONTRACT_EXPR_CACHE").clear()
                _seam(I, "_CONTRACT_EXPR_CACHE").update(snap_e)
                _seam(I, "_PATH_CACHE").clear()
                _seam(I, "_PATH_CACHE").update(snap_p)
            counters["api:" + api] += 1
            if spec.get("sizes_as", "shapes") != "shapes" and api in ("array_contract_path", "array_contract_expression"):
                counters["probe:explicit_size_dict"] += 1
            if spec.get("optimize_kind") == "reusable-instance":
                counters["probe:optimizer_instance_shared"] += 1
            if spec.get("optimize_kind") == "path-lol" and spec["diff"] in _HELD_PATHS:
                counters["probe:caller_edited_its_path_object"] += 1
            if isinstance(spec["optimize"], str) and spec["optimize"].startswith("opt_einsum:"):
                counters["probe:opt_einsum_namespace"] += 1
            if spec["diff"].startswith("labels-ncon"):
                counters["probe:negative_int_labels"] += 1
            if spec.get("as_list"):
                counters["probe:list_inputs_unhashable"] += 1
            hit = False
            if api in ("array_contract", "array_contract_expression", "einsum", "einsum_expression", "ncon", "expr_constants", "expr_constants_inplace") and not grew_expr and sub_err is None:
                if not spec.get("as_list"):
                    counters["probe:expr_cache_hit"] += 1
                    hit = True
            if api == "array_contract_path" and not grew_path and sub_err is None and not spec.get("as_list"):
                counters["probe:path_cache_hit"] += 1
                hit = True
            if api == "expr_reuse" and held.get(si) is not None:
                counters["probe:expr_reused_on_new_arrays"] += 1
                hit = True
            sig = {"api": api, "diff": spec["diff"], "earlier": sorted(set(seen_diffs)), "hit": hit}
            log.add("call", ci, api, spec["diff"], hit, None if sub_err is None else type(sub_err).__name__,
                    None if ref_err is None else type(ref_err).__name__)
            # ---- compare -------------------------------------------------------------------
            if (sub_err is None) != (ref_err is None):
                V("cached-and-uncached-disagree-on-failure",
                  f"call {ci} {api} on {spec['diff']!r}: cached -> {('ok' if sub_err is None else type(sub_err).__name__ + ': ' + str(sub_err)[:120])}, "
                  f"uncached -> {('ok' if ref_err is None else type(ref_err).__name__ + ': ' + str(ref_err)[:120])}", **sig)
                break
            if sub_err is not None:
                if type(sub_err) is not type(ref_err):
                    V("cached-and-uncached-raise-differently", f"call {ci}: {type(sub_err).__name__} vs {type(ref_err).__name__}", **sig)
                    break
                counters["probe:both_raised:" + type(sub_err).__name__] += 1
                seen_diffs.append(spec["diff"])
                continue
            if sub[0] == "path" and spec.get("optimize_kind") == "reusable-instance":
                # a stored order is a legitimate answer even if a fresh search would pick another one
                counters["probe:instance_path_not_compared"] += 1
            elif sub[0] == "path":
                if sub[1] != ref[1]:
                    # nondeterministic optimizer? two uncached calls must agree for the comparison to mean anything
                    with uncached_internals():
                        prng.reseed_globals(prng.H(case["seed"], "call", ci))
                        ref2 = _call(ctg, api, spec, c["aseed"], False)
                    if ref2[1] == ref[1]:
                        V("cached-path-differs-from-uncached", f"call {ci} on {spec['diff']!r}: cached {sub[1]} vs uncached {ref[1]}", **sig)
                        break
                    counters["probe:path_nondeterministic_skipped"] += 1
            else:
                a = sub[-1]
                b = ref[-1]
                inputs, output, sizes, opt = _materialise(spec)
                arrays = sub[1] if sub[0] == "value-arrays" else _arrays(spec, sizes, c["aseed"])
                truth, scale = _truth(spec, arrays)
                bad = None
                if a.shape != b.shape:
                    bad = f"shape {a.shape} (cached) vs {b.shape} (uncached)"
                else:
                    err = np.abs(a - b)
                    tol = (1e-9 * scale + 1e-300) if np.shape(scale) == a.shape else (1e-9 * float(np.max(scale)) + 1e-300)
                    if not np.all(err <= tol):
                        bad = f"max |cached-uncached| = {float(err.max()):.3e}"
                if bad:
                    which = "cached side is wrong" if (b.shape == truth.shape and np.allclose(b, truth)) else "uncached side differs from numpy too"
                    V("cached-value-differs-from-uncached", f"call {ci} {api} on {spec['diff']!r} after {sorted(set(seen_diffs))}: {bad}; {which}", **sig)
                    break
                if sub[0] == "expr" and api != "expr_reuse":
                    held[si] = sub[1]
            seen_diffs.append(spec["diff"])
            if ci >= 1:
                states.add(prng.H(sorted(seen_diffs), api, hit, tuple(sorted(ev))))
    cold_start()
    log.add("violations", [(v["oracle"], v["detail"]) for v in violations])
    sample = {"pool": [(s["diff"], s["inputs"], s["output"], s["optimize"], s["kwargs"], s["canonicalize"]) for s in pool],
              "calls": [(c["api"], c["spec"] % len(pool), c.get("evict")) for c in case["calls"]]}
    return {"violations": violations, "digest": log.digest(), "counters": dict(counters), "faults": dict(faults),
            "states": list(states), "sim_seconds": 0.0, "nontrivial": len(case["calls"]) >= 2, "sample": sample}


def _evict(d, frac, rng):
    keys = list(d)
    for k in keys:
        if frac >= 1.0 or rng.random() < frac:
            d.pop(k, None)


def minimise(prop, case, v):
    cls = violation_class(v)
    budget = [200]

    def fails(c):
        if budget[0] <= 0:
            return False
        budget[0] -= 1
        try:
            r = run_case(prop, c)
        except Exception:
            return False
        return any(violation_class(x) == cls for x in r["violations"])

    def with_calls(calls, base=None):
        c = dict(base or case)
        c["calls"] = calls
        return c

    if not fails(case):
        return case, v
    calls = ddmin(list(case["calls"]), lambda cs: fails(with_calls(cs)), max_tests=120)
    cur = with_calls(calls)
    # drop faults
    for i in range(len(cur["calls"])):
        for k in ("evict", "fail_pathfinder"):
            if k in cur["calls"][i]:
                c2 = copy.deepcopy(cur)
                c2["calls"][i].pop(k)
                if fails(c2):
                    cur = c2
        if cur["calls"][i]["api"] not in ("array_contract",):
            c2 = copy.deepcopy(cur)
            c2["calls"][i]["api"] = "array_contract"
            if fails(c2):
                cur = c2
    if cur.get("lru_maxsize"):
        c2 = copy.deepcopy(cur)
        c2["lru_maxsize"] = None
        if fails(c2):
            cur = c2
    budget[0] = 3
    r = run_case(prop, cur)
    vs = [x for x in r["violations"] if violation_class(x) == cls]
    return cur, (vs[0] if vs else v)
