"""Engine `hist` — stateful history machine over live ContractionTree objects.

Serves C02 (value preserved under any history of transformations) and C04
(incrementally tracked costs == from-scratch rebuild).  DESIGN.md §4.

A *case* is a JSON-able dict: network, initial tree, list of ops.  ``run_case``
is a pure function of the case (all seeds are explicit, global RNGs are
reseeded before every op, the clock is virtual, pools are SimPools seeded from
the op).  Oracles are evaluated on ``copy.deepcopy`` snapshots so that checking
never normalises the subject's cache state.
"""

import contextlib
import copy
import io
import random

import numpy as np

from sim import clock as simclock
from sim import netgen, prng
from sim.pool import SimPool
from sim.trace import EventLog, canon, ddmin

CASE_TIMEOUT = 120

LEVEL = {"C02": "exploration", "C04": "exploration"}

PLAN = {
    "C02": {
        "quick": {"runs": 3400, "wall_cap": 100, "chunk": 10, "selftest": 8},
        "thorough": {"runs": 80000, "wall_cap": 1700, "chunk": 25, "selftest": 40},
    },
    "C04": {
        "quick": {"runs": 16000, "wall_cap": 100, "chunk": 50, "selftest": 8},
        "thorough": {"runs": 600000, "wall_cap": 1700, "chunk": 200, "selftest": 40},
    },
}

RULE = {
    "C02": (
        "one evaluation = one seeded history (random network with swarm-toggled hyper/repeated/scalar/outer/"
        "disconnected/size-1 features, random or pathfinder initial tree, 1-14 ops over 1-3 live trees drawn from "
        "reconfigure/forest/anneal/temper/remove/project/restore/unslice/slice/slice_and_reconfigure/sort/reset/copy "
        "and cache-filling observers); after every op every live tree is contracted on a deepcopy snapshot and "
        "compared with numpy.einsum (float64, complex128 or strictly positive int64 arrays). distinct_nontrivial counts distinct (tree-shape hash, sliced/projected set, "
        "bitmap of populated per-node cache fields, last op kind) states reached after at least one mutating op."
    ),
    "C04": (
        "same seeded histories as C02 (own seeds); after every op every live tree's figures (contract_stats, totals, "
        "max/peak size, combo cost, multiplicity, sliced_inds, sliced_inputs, node set, children, per-node "
        "legs/involved key sets, size, flops, preprocessing) are compared on a deepcopy snapshot with a tree rebuilt "
        "from (get_path(), sliced_inds), with a forced recount, and with figures recomputed from first principles (inputs, output, sizes, sliced indices, pairing order). distinct_nontrivial as for C02."
    ),
}

COMPONENTS = {
    "real": ["cotengra.core.ContractionTree (all transformation and query methods)", "cotengra.contract",
             "cotengra.slicer", "cotengra.pathfinders.path_simulated_annealing", "cotengra.pathfinders.path_basic",
             "cotengra.scoring", "numpy", "autoray"],
    "stub": ["worker pool -> sim.pool.SimPool (thread-like / process-like, seeded completion order)",
             "time.time/sleep -> sim.clock.VirtualClock (tick per read)"],
}

ASSUMPTIONS = {
    "C02": [
        "reference value is numpy.einsum(optimize=False) on float64/complex128 arrays; tolerance 1e-9 * einsum(|arrays|)",
        "a transformation that raises (refused parameters) is part of the history: the tree stays live and is checked afterwards",
        "index names are single characters (cotengra's contraction recipes require that)",
        "sampling, not enumeration: networks <= 9 tensors, <= 12 indices, dims in {1,2,3}, histories <= 14 ops",
    ],
    "C04": [
        "fresh reference = ContractionTree.from_path(inputs, output, size_dict, path=T.get_path()) + remove_ind_ per sliced index",
        "legs/involved are compared as index *sets* (dict keys); appearance counts are an internal encoding",
        "a transformation that raises (refused parameters) is part of the history: the tree stays live and is checked afterwards",
        "sampling, not enumeration",
    ],
}

EXPECTED_PROBES = {
    "C02": ["op:subtree_reconfigure", "op:simulated_anneal", "op:remove_ind", "op:restore_ind", "op:slice",
            "op:sort_contraction_indices", "op:copy", "op:contract", "op:subtree_reconfigure_forest",
            "op:parallel_temper", "op:slice_and_reconfigure", "probe:projected_tree_contracted", "probe:preemptive_task_switches",
            "probe:sliced_tree_contracted", "pool:out_of_order", "probe:contract_after_mutation_with_warm_cache",
            "probe:tree_kept_after_refused_op"],
    "C04": ["op:subtree_reconfigure", "op:simulated_anneal", "op:remove_ind", "op:restore_ind", "op:slice",
            "op:copy", "probe:roundtrip_unsliced_checked", "probe:tracked_before_mutation"],
}

MINIMIZE = ["flops", "size", "write", "combo", "limit", "combo-32"]
ORDERS = [None, "dfs", "sum", "lenmin", "negmax", "surface_order"]

MUTATORS = {
    "subtree_reconfigure", "subtree_reconfigure_forest", "simulated_anneal", "parallel_temper", "remove_ind",
    "restore_ind", "unslice_rand", "unslice_all", "slice", "slice_and_reconfigure", "slice_and_reconfigure_forest",
    "sort_contraction_indices", "reset_contraction_indices", "copy",
}


def violation_class(v):
    return (v["oracle"],)


# ---------------------------------------------------------------------------
# generation


def _gen_op(rng, heavy_ok=True, weights=None):
    r = rng.random()
    op = {"t": rng.randrange(3), "seed": rng.randrange(2 ** 31)}
    w = [
        ("subtree_reconfigure", 14), ("simulated_anneal", 9), ("remove_ind", 12), ("restore_ind", 7),
        ("unslice_rand", 3), ("unslice_all", 2), ("slice", 7), ("slice_and_reconfigure", 3),
        ("subtree_reconfigure_forest", 3), ("parallel_temper", 2), ("slice_and_reconfigure_forest", 1),
        ("sort_contraction_indices", 6), ("reset_contraction_indices", 1), ("copy", 4),
        ("contract", 14), ("get_contractor", 2), ("contract_stats", 4), ("totals", 4), ("get_path", 2),
        ("print_contractions", 3), ("has_preprocessing", 1), ("contract_slice", 2), ("gen_output_chunks", 1),
        ("touch_recipes", 2),
    ]
    if weights is not None:
        w = weights
    names = [n for n, _ in w]
    name = rng.choices(names, weights=[x for _, x in w])[0]
    op["op"] = name
    if name == "subtree_reconfigure":
        op.update(subtree_size=rng.randint(2, 6), maxiter=rng.randint(1, 6),
                  select=rng.choice(["max", "min", "random"]), subtree_search=rng.choice(["bfs", "dfs", "random"]),
                  weight_what=rng.choice(["flops", "size"]), weight_pwr=rng.choice([1, 2, 3]),
                  minimize=rng.choice([None] + MINIMIZE), inplace=rng.random() < 0.8)
    elif name == "subtree_reconfigure_forest":
        op.update(num_trees=rng.randint(2, 3), num_restarts=rng.randint(1, 2), subtree_maxiter=rng.randint(1, 3),
                  subtree_size=rng.randint(2, 5), restart_fraction=rng.choice([0.34, 0.5, 1.0]),
                  minimize=rng.choice([None, "flops", "size", "combo"]), inplace=rng.random() < 0.8,
                  pool=_gen_pool(rng))
    elif name == "simulated_anneal":
        op.update(tsteps=rng.randint(1, 3), numiter=rng.randint(1, 4), tstart=rng.choice([2.0, 0.5, 10.0]),
                  tfinal=rng.choice([0.05, 0.5]), minimize=rng.choice([None, "flops", "size", "write", "combo", "limit"]),
                  target_size=rng.choice([None, None, 1, 2, 4, 8]), slice_mode=rng.choice(["basic", "reslice", "drift", 2]),
                  inplace=rng.random() < 0.8)
    elif name == "parallel_temper":
        op.update(tsteps=rng.randint(1, 2), num_trees=rng.randint(2, 3), numiter=rng.randint(1, 2),
                  minimize=rng.choice([None, "flops", "combo"]), target_size=rng.choice([None, None, 2, 8]),
                  slice_mode=rng.choice(["basic", "reslice", "drift"]),
                  parallel_slice_mode="temperature",
                  max_time=rng.choice([None, None, 0.05, 1.0]), inplace=rng.random() < 0.8, pool=_gen_pool(rng))
        if op["target_size"] is not None:
            # 'time' without a target_size raises TypeError in parallel_temper (observation O2)
            op["parallel_slice_mode"] = rng.choice(["temperature", "time", "constant"])
    elif name == "remove_ind":
        op.update(k=rng.randrange(64), project=rng.choice([None, None, 0, 1, 2]), inplace=rng.random() < 0.85,
                  again=rng.random() < 0.12)
    elif name == "restore_ind":
        op.update(k=rng.randrange(64), inplace=rng.random() < 0.85)
    elif name in ("unslice_rand", "unslice_all"):
        op.update(inplace=rng.random() < 0.85)
    elif name == "slice":
        kind = rng.choice(["size", "overhead", "slices"])
        op.update(target_size=rng.choice([1, 2, 4, 8, 16]) if kind == "size" else None,
                  target_overhead=rng.choice([1.0, 1.5, 4.0]) if kind == "overhead" else None,
                  target_slices=rng.choice([2, 3, 4, 9]) if kind == "slices" else None,
                  allow_outer=rng.choice([True, True, False, "only"]), reslice=rng.random() < 0.3,
                  max_repeats=rng.randint(1, 4), temperature=rng.choice([0.01, 1.0]),
                  minimize=rng.choice([None, "flops", "size", "combo"]), inplace=rng.random() < 0.85)
    elif name == "slice_and_reconfigure":
        op.update(target_size=rng.choice([1, 2, 4, 8, 16]), step_size=rng.choice([2, 3]), max_repeats=rng.randint(1, 3),
                  reslice=rng.random() < 0.3, allow_outer=rng.choice([True, True, False]),
                  reconf=dict(subtree_size=rng.randint(2, 5), maxiter=rng.randint(1, 3)),
                  minimize=rng.choice([None, "flops", "combo"]), inplace=rng.random() < 0.85)
    elif name == "slice_and_reconfigure_forest":
        op.update(target_size=rng.choice([2, 4, 8, 16]), step_size=2, num_trees=rng.randint(2, 3), max_repeats=rng.randint(1, 2),
                  reconf=dict(subtree_size=rng.randint(2, 4), maxiter=rng.randint(1, 2)),
                  inplace=rng.random() < 0.85, pool=_gen_pool(rng))
    elif name == "sort_contraction_indices":
        op.update(priority=rng.choice(["flops", "size", "root", "leaves"]), make_output_contig=rng.random() < 0.7,
                  make_contracted_contig=rng.random() < 0.7, reset=rng.random() < 0.8)
    elif name in ("contract", "get_contractor"):
        op.update(copts=_gen_copts(rng))
    elif name == "contract_stats":
        op.update(force=rng.random() < 0.4)
    elif name == "get_path":
        op.update(order=rng.choice(ORDERS), ssa=rng.random() < 0.5)
    elif name == "print_contractions":
        op.update(sort=rng.choice([None, "flops", "size"]))
    elif name in ("contract_slice", "gen_output_chunks"):
        op.update(k=rng.randrange(64), copts=_gen_copts(rng, allow_strip=False))
    return op


def _gen_pool(rng):
    r = rng.random()
    if r < 0.4:
        return None
    mode = "thread" if r < 0.6 else ("process" if r < 0.85 else "thread-preemptive")
    return {"workers": rng.randint(1, 4), "mode": mode, "seed": rng.randrange(2 ** 31),
            "slow": rng.random() < 0.3, "switch_p": rng.choice([0.02, 0.1, 0.3])}


def _gen_copts(rng, allow_strip=True):
    return {
        "order": rng.choice(ORDERS),
        "prefer_einsum": rng.random() < 0.3,
        "implementation": rng.choice([None, None, "cotengra", "autoray"]),
        "strip_exponent": allow_strip and rng.random() < 0.2,
    }


FEATURES = ["hyper", "repeated", "scalar", "outer", "disconnected", "out_hyper", "out_edge", "empty_output", "dangling_sum"]


def gen_case(prop, seed, tier):
    sw = prng.stream(seed, "swarm")
    ops_rng = prng.stream(seed, "ops")
    net_rng = prng.stream(seed, "net")
    feat = {f: (sw.random() < 0.3) for f in FEATURES}
    if sw.random() < 0.15:
        feat = {f: False for f in FEATURES}  # plain networks too
    dims = sw.choice([(2, 2, 3), (1, 2, 2, 3), (2,), (1, 2, 3, 4)])
    n_max = sw.choice([4, 6, 8, 9])
    big = tier == "thorough" and sw.random() < 0.25
    if big:
        # deeper bounds in the thorough tier: larger networks, longer histories
        n_max = sw.choice([10, 12])
        dims = sw.choice([(2,), (1, 2, 2), (2, 2, 3)])
    prof = prng.stream(seed, "profile")
    profile = "slice-roundtrip" if (not big and prof.random() < 0.125) else None
    if profile:
        n_max = max(n_max, 7)
    inputs, output, size_dict = netgen.gen_network(net_rng, n_min=(5 if profile else 2) if not big else 8, n_max=n_max, dims=dims, feat=feat,
                                                   max_inds=12 if not big else 16, space_cap=2 ** 16 if not big else 2 ** 13)
    n = len(inputs)
    init_kind = sw.choice(["ssa", "ssa", "ssa", "nary", "greedy", "random-greedy", "optimal", "hyper-sliced"]) if n <= 8 else sw.choice(["ssa", "nary", "greedy"])
    init = {"kind": init_kind, "seed": net_rng.randrange(2 ** 31),
            "track": [sw.random() < 0.3, sw.random() < 0.3, sw.random() < 0.3]}
    if init_kind == "ssa":
        init["ssa_path"] = netgen.random_ssa_path(net_rng, n)
    elif init_kind == "nary":
        # a path with some steps contracting 3 tensors at once (from_path fills them in with a sub-search)
        live = list(range(n))
        nxt = n
        path = []
        while len(live) > 1:
            k = 3 if (len(live) >= 3 and net_rng.random() < 0.5) else 2
            pick = net_rng.sample(live, k)
            for x in pick:
                live.remove(x)
            path.append(sorted(pick))
            live.append(nxt)
            nxt += 1
        init["ssa_path"] = path
        init["sub_optimize"] = sw.choice(["greedy", "optimal", "auto"])
    elif init_kind == "hyper-sliced":
        init["target_size"] = sw.choice([2, 4, 8])
    nops = sw.randint(1, 14) if not big else sw.randint(4, 25)
    # swarm: some runs disable whole op families
    banned = set()
    for fam in (["simulated_anneal", "parallel_temper"], ["subtree_reconfigure", "subtree_reconfigure_forest"],
                ["slice", "slice_and_reconfigure", "slice_and_reconfigure_forest"], ["sort_contraction_indices"],
                ["remove_ind", "restore_ind", "unslice_rand", "unslice_all"]):
        if sw.random() < 0.25:
            banned.update(fam)
    ops = []
    guard = 0
    while len(ops) < nops and guard < 500:
        guard += 1
        op = _gen_op(ops_rng)
        if op["op"] in banned:
            continue
        ops.append(op)
    # swarm profile "slice-roundtrip" (one run in eight, decided by its own stream so that the other runs
    # are unchanged): one tree, op mix concentrated on remove/sort/contract/restore so that chains such as
    # `remove_ind; sort_contraction_indices; contract; restore_ind; contract` (recipes cached on the live
    # tree between two structural changes of the same index) are dense instead of one-in-thousands
    if profile:
        # phases: [observe] remove+ observe+ restore/remove+ [observe] [restore/remove] ; "observe" ops fill the
        # recipe caches of the live tree (sort installs non-default index orders first, half of the time)
        observe = [("sort_contraction_indices", 30), ("contract", 40), ("get_contractor", 8), ("touch_recipes", 10),
                   ("contract_slice", 6), ("subtree_reconfigure", 6)]
        undo = [("restore_ind", 60), ("unslice_rand", 12), ("unslice_all", 6), ("remove_ind", 22)]
        warmup = [("contract", 70), ("get_contractor", 10), ("touch_recipes", 20)]
        plan = ([observe] * prof.randint(0, 1) + [[("remove_ind", 1)]] * prof.randint(1, 2)
                + [[("sort_contraction_indices", 1)]] * (prof.random() < 0.6) + [warmup] * prof.randint(1, 2)
                + [undo] * prof.randint(1, 2)
                + [observe] * prof.randint(0, 2) + [undo] * prof.randint(0, 2))
        ops = []
        for pw in plan:
            op = _gen_op(prof, weights=pw)
            op["t"] = 0
            if op["op"] in ("remove_ind", "restore_ind", "unslice_rand", "unslice_all") and prof.random() < 0.8:
                op["inplace"] = True
            ops.append(op)
    return {
        "seed": seed,
        "profile": profile,
        "net": {"inputs": inputs, "output": output, "size_dict": size_dict,
                "array_seed": net_rng.randrange(2 ** 31), "complex": sw.random() < 0.2,
                "dtype": sw.choice([None, None, None, None, None, "int"])},
        "init": init,
        "ops": ops,
        "tick": sw.choice([0.0, 0.001, 0.02]),
        "check_opts_seed": sw.randrange(2 ** 31),
    }


# ---------------------------------------------------------------------------
# execution helpers


def _order_fn(name):
    if name in (None, "dfs", "surface_order"):
        return name
    if name == "sum":
        return _order_sum
    if name == "lenmin":
        return _order_lenmin
    if name == "negmax":
        return _order_negmax
    raise ValueError(name)


def _order_sum(node):
    return sum(node)


def _order_lenmin(node):
    return (len(node), min(node))


def _order_negmax(node):
    return -max(node)


def _copts(c):
    return dict(order=_order_fn(c.get("order")), prefer_einsum=bool(c.get("prefer_einsum")),
                implementation=c.get("implementation"), strip_exponent=bool(c.get("strip_exponent")))


def _make_pool(spec, clk, stats_sink):
    if spec is None:
        return False
    rng = random.Random(spec["seed"])
    speed = None
    if spec.get("slow"):
        speed = [1.0] * spec["workers"]
        speed[rng.randrange(spec["workers"])] = 30.0
    p = SimPool(clk, workers=spec["workers"], mode=spec["mode"], rng=rng, speed=speed)
    stats_sink.append(p)
    return p


def _preempt_wl(base, name, full):
    from engines.hyper import _preempt_whitelist

    return _preempt_whitelist(base, name, full)


def _with_pool(spec, clk, pools, counters, call):
    """Run ``call(pool)``. For a 'thread-preemptive' pool the call runs as simulated thread 0 of a baton scheduler and
    the pool's tasks are further simulated threads sharing the caller's objects (a real thread pool)."""
    if spec is not None and spec.get("mode") == "thread-preemptive":
        from sim import threads as simthreads

        sched = simthreads.Scheduler(simthreads.WalkChooser(random.Random(spec["seed"]), spec.get("switch_p", 0.05)), _preempt_wl,
                                     max_points=5_000_000)
        pool = simthreads.PreemptivePool(sched, spec["workers"])
        out = {}

        def body():
            out["r"] = call(pool)

        prev = clk.sleep_hook
        clk.sleep_hook = lambda: sched.yield_now(sched.index_of_current())
        try:
            errs = sched.run([body], [1], [None])
        finally:
            clk.sleep_hook = prev
        pools.append(pool)
        counters["probe:preemptive_task_switches"] += sched.switches
        if errs and errs[0] is not None:
            raise errs[0]
        return out["r"]
    return call(_make_pool(spec, clk, pools))


class Net:
    def __init__(self, d):
        self.inputs = tuple(tuple(t) for t in d["inputs"])
        self.output = tuple(d["output"])
        self.size_dict = {k: int(v) for k, v in d["size_dict"].items()}
        self.arrays = netgen.make_arrays(self.inputs, self.size_dict, d["array_seed"], complex_=d.get("complex", False), dtype=d.get("dtype"))
        self._ref_cache = {}

    def reference(self, projected):
        """(ref, scale) with every projected index restricted to its value,
        kept as a length-1 axis where it is an output index."""
        key = tuple(sorted(projected.items()))
        if key not in self._ref_cache:
            arrs = []
            for term, a in zip(self.inputs, self.arrays):
                sel = tuple(slice(projected[ix], projected[ix] + 1) if ix in projected else slice(None) for ix in term)
                arrs.append(a[sel])
            ref = netgen.reference(self.inputs, self.output, arrs)
            scale = netgen.reference_abs(self.inputs, self.output, arrs)
            self._ref_cache[key] = (np.asarray(ref), np.asarray(scale))
        return self._ref_cache[key]


def _build_initial(ctg, net, init):
    kw = dict(track_flops=init["track"][0], track_write=init["track"][1], track_size=init["track"][2])
    kind = init["kind"]
    if kind == "ssa":
        return ctg.ContractionTree.from_path(net.inputs, net.output, net.size_dict,
                                             ssa_path=[tuple(p) for p in init["ssa_path"]], **kw)
    if kind == "nary":
        return ctg.ContractionTree.from_path(net.inputs, net.output, net.size_dict,
                                             ssa_path=[tuple(p) for p in init["ssa_path"]], optimize=init["sub_optimize"], **kw)
    if kind == "hyper-sliced":
        opt = ctg.HyperOptimizer(methods=["greedy"], max_repeats=2, optlib="random", parallel=False, seed=init["seed"],
                                 slicing_opts={"target_size": init["target_size"]})
        return opt.search(net.inputs, net.output, net.size_dict)
    from cotengra.pathfinders import path_basic

    if kind == "greedy":
        return path_basic.GreedyOptimizer().search(net.inputs, net.output, net.size_dict)
    if kind == "random-greedy":
        return path_basic.RandomGreedyOptimizer(max_repeats=4, seed=init["seed"], parallel=False).search(
            net.inputs, net.output, net.size_dict)
    if kind == "optimal":
        return path_basic.OptimalOptimizer().search(net.inputs, net.output, net.size_dict)
    raise ValueError(kind)


def _state_key(tree, last_op):
    shape = sorted(tuple(sorted(n)) for n in tree.children)
    sl = sorted((ix, si.project is not None) for ix, si in tree.sliced_inds.items())
    bm = {"leaf": set(), "mid": set(), "root": set()}
    for node, info in tree.info.items():
        c = "leaf" if len(node) == 1 else ("root" if len(node) == tree.N else "mid")
        bm[c].update(info.keys())
    bitmap = tuple((c, tuple(sorted(bm[c]))) for c in ("leaf", "mid", "root"))
    cores = len(tree.contraction_cores) > 0
    trk = (tree._track_flops, tree._track_write, tree._track_size)
    return prng.H(shape, sl, bitmap, cores, trk, last_op)


def _tree_summary(tree):
    try:
        return {"path": tree.get_ssa_path(), "sliced": [(ix, si.project) for ix, si in tree.sliced_inds.items()],
                "mult": tree.multiplicity}
    except Exception as e:  # summary is for the digest only
        return {"summary_error": type(e).__name__}


# ---------------------------------------------------------------------------
# oracles


def _compare_value(got, ref, scale):
    got = np.asarray(got)
    if got.shape != ref.shape:
        return "shape", f"shape {got.shape} != reference {ref.shape}"
    err = np.abs(got - ref)
    tol = 1e-9 * scale + 1e-300
    if not np.all(err <= tol):
        i = int(np.argmax(err - tol))
        return "value", f"max |got-ref|={float(err.max()):.3e} (tol {float(np.ravel(tol)[i]):.3e}, ref scale {float(scale.max()):.3e})"
    return None, None


def _contract_and_compare(tree, net, copts):
    projected = {ix: si.project for ix, si in tree.sliced_inds.items() if si.project is not None}
    ref, scale = net.reference(projected)
    out = tree.contract(net.arrays, **_copts(copts))
    if copts.get("strip_exponent"):
        m, e = out
        out = np.asarray(m) * 10.0 ** float(e)
    return _compare_value(out, ref, scale)


def oracle_c02(tree, net, copts_list, counters):
    """Run on a snapshot. Returns list of (oracle, detail)."""
    bad = []
    if tree.multiplicity > 4096:
        # contracting would take minutes (one core contraction per slice): bounded runs, counted
        counters["probe:value_check_skipped_too_many_slices"] += 1
        return bad
    for copts in copts_list:
        snap = copy.deepcopy(tree)
        try:
            kind, detail = _contract_and_compare(snap, net, copts)
        except Exception as e:
            bad.append(("contract-raised", f"{type(e).__name__}: {e} (options {copts})"))
            continue
        if kind is not None:
            bad.append(("wrong-value", f"{kind}: {detail} (options {copts})"))
    if any(si.project is not None for si in tree.sliced_inds.values()):
        counters["probe:projected_tree_contracted"] += 1
    elif tree.sliced_inds:
        counters["probe:sliced_tree_contracted"] += 1
    return bad


def _figures(tree):
    """All the figures C04 compares, computed on (and mutating only) ``tree``."""
    f = {}
    f["stats"] = dict(tree.contract_stats())
    f["total_flops"] = tree.total_flops()
    f["total_write"] = tree.total_write()
    f["max_size"] = tree.max_size()
    f["peak_size"] = tree.peak_size()
    f["combo_cost"] = tree.combo_cost()
    f["combo_max"] = tree.combo_cost(factor=8, combine=max)
    f["multiplicity"] = tree.multiplicity
    f["nslices"] = tree.nslices
    f["nchunks"] = tree.nchunks
    f["sliced_inds"] = [(ix, si.inner, si.size, si.project) for ix, si in tree.sliced_inds.items()]
    f["sliced_inputs"] = sorted(tree.sliced_inputs)
    f["nodes"] = sorted(tuple(sorted(n)) for n in tree.info)
    f["children"] = sorted((tuple(sorted(p)), tuple(sorted(l)), tuple(sorted(r))) for p, (l, r) in tree.children.items())
    per = {}
    for node in tree.info:
        k = ",".join(map(str, sorted(node)))
        per[k] = {
            "legs": sorted(tree.get_legs(node)),
            "involved": sorted(tree.get_involved(node)),
            "size": tree.get_size(node),
            "flops": tree.get_flops(node),
        }
    f["per_node"] = per
    tree.has_preprocessing()
    f["preprocessing"] = sorted(tree.preprocessing.items())
    return f


def _definition_figures(tree):
    """Per-node index sets and costs straight from the definitions (independent of from_path / remove_ind):
    cnt(node, ix) = occurrences of ix on the node's input tensors; a node keeps ix iff 0 < cnt < appearances(ix)
    (appearances counts inputs and output); sliced/projected indices are dropped everywhere; the root keeps the
    output; involved(node) = legs(left) | legs(right); size / flops = products of the sizes."""
    inputs, output, size_dict = tree.inputs, tree.output, tree.size_dict
    sliced = set(tree.sliced_inds)
    app = {}
    for t in inputs:
        for ix in t:
            app[ix] = app.get(ix, 0) + 1
    for ix in output:
        app[ix] = app.get(ix, 0) + 1
    N = len(inputs)

    def legs_of(node):
        if len(node) == N:
            return {ix for ix in output if ix not in sliced}
        cnt = {}
        for i in node:
            for ix in inputs[i]:
                if ix not in sliced:
                    cnt[ix] = cnt.get(ix, 0) + 1
        return {ix for ix, c in cnt.items() if c < app[ix]}

    per = {}
    tot_f = tot_w = 0
    mx = 0
    for p, (l, r) in tree.children.items():
        lg = legs_of(p)
        inv = legs_of(l) | legs_of(r)
        size = 1
        for ix in lg:
            size *= size_dict[ix]
        flops = 1
        for ix in inv:
            flops *= size_dict[ix]
        per[",".join(map(str, sorted(p)))] = {"legs": sorted(lg), "involved": sorted(inv), "size": size, "flops": flops}
        tot_f += flops
        tot_w += size
        mx = max(mx, size)
    mult = 1
    for ix, si in tree.sliced_inds.items():
        if si.project is None:
            mult *= size_dict[ix]
    return per, {"flops": mult * tot_f, "write": mult * tot_w, "size": mx}, mult


def _rebuild(ctg, tree):
    fresh = ctg.ContractionTree.from_path(tree.inputs, tree.output, tree.size_dict, path=tree.get_path())
    for ix, si in tree.sliced_inds.items():
        fresh.remove_ind_(ix, project=si.project)
    return fresh


def _diff_figs(a, b):
    out = []
    for k in a:
        if k == "per_node":
            for n in sorted(set(a[k]) | set(b[k])):
                x, y = a[k].get(n), b[k].get(n)
                if x != y:
                    if x is None or y is None:
                        out.append(f"node {{{n}}}: present in only one tree")
                        continue
                    for q in x:
                        if x[q] != y[q]:
                            out.append(f"node {{{n}}}.{q}: {x[q]} != fresh {y[q]}")
        elif a[k] != b[k]:
            out.append(f"{k}: {a[k]} != fresh {b[k]}")
    return out


class _SkipDefinition(Exception):
    pass


_CALIBRATION = {}


def _definition_calibrated(ctg, tree, counters):
    key = (tuple(map(tuple, tree.inputs)), tuple(tree.output), tuple(sorted(tree.size_dict.items())))
    ok = _CALIBRATION.get(key)
    if ok is None:
        try:
            n = tree.N
            ssa = [(i, n + i - 2) if i > 1 else (0, 1) for i in range(1, n)] if n > 1 else []
            pristine = ctg.ContractionTree.from_path(tree.inputs, tree.output, tree.size_dict, ssa_path=ssa)
            fig = _figures(pristine)
            per_def, stats_def, mult_def = _definition_figures(pristine)
            ok = all(fig["per_node"].get(k) is not None and all(fig["per_node"][k][q] == want[q] for q in ("legs", "involved", "size", "flops"))
                     for k, want in per_def.items()) and (n <= 1 or fig["stats"] == stats_def) and fig["multiplicity"] == mult_def
        except Exception:
            ok = False
        _CALIBRATION.clear()  # one network per run
        _CALIBRATION[key] = ok
        if not ok:
            counters["probe:definition_oracle_off_library_defines_figures_differently"] += 1
    return ok


def oracle_c04(ctg, tree, counters):
    bad = []
    snap = copy.deepcopy(tree)
    try:
        fresh = _rebuild(ctg, copy.deepcopy(tree))
        fig_fresh = _figures(fresh)
    except Exception as e:
        return [("rebuild-raised", f"{type(e).__name__}: {e}", {})]
    try:
        fig = _figures(snap)
    except Exception as e:
        return [("query-raised", f"{type(e).__name__}: {e}", {})]
    d = _diff_figs(fig, fig_fresh)
    if d:
        fields = sorted({x.split(":")[0].split(".")[-1] for x in d})
        bad.append(("figures-differ-from-rebuild", "; ".join(d[:6]), {"fields": fields}))
    # the same figures straight from the definitions (a rebuild goes through the same remove_ind code as the subject).
    # The property only promises "equals a rebuild": the definition is used only while it agrees with what the library
    # reports for a freshly built, never transformed tree of this network (calibrated once per run) - a library that
    # defines its cost figures differently switches this oracle off instead of setting it off.
    try:
        if not _definition_calibrated(ctg, tree, counters):
            raise _SkipDefinition()
        per_def, stats_def, mult_def = _definition_figures(copy.deepcopy(tree))
        dd = []
        for n, want in per_def.items():
            got = fig["per_node"].get(n)
            if got is None:
                dd.append(f"node {{{n}}} missing")
                continue
            for q in ("legs", "involved", "size", "flops"):
                if got[q] != want[q]:
                    dd.append(f"node {{{n}}}.{q}: {got[q]} != definition {want[q]}")
        if tree.N > 1 and fig["stats"] != stats_def:
            dd.append(f"stats {fig['stats']} != definition {stats_def}")
        if fig["multiplicity"] != mult_def:
            dd.append(f"multiplicity {fig['multiplicity']} != definition {mult_def}")
        if dd:
            fields = sorted({x.split(":")[0].split(".")[-1].split(" ")[0] for x in dd})
            bad.append(("figures-differ-from-definition", "; ".join(dd[:6]), {"fields": fields}))
    except _SkipDefinition:
        pass
    except Exception as e:
        bad.append(("definition-oracle-raised", f"{type(e).__name__}: {e}", {}))
    # running trackers vs forced recomputation on the same tree
    snap2 = copy.deepcopy(tree)
    try:
        a = dict(snap2.contract_stats())
        b = dict(snap2.contract_stats(force=True))
        if a != b:
            bad.append(("tracked-stats-stale", f"contract_stats() {a} != contract_stats(force=True) {b}", {}))
    except Exception as e:
        bad.append(("query-raised", f"contract_stats: {type(e).__name__}: {e}", {}))
    if not tree.sliced_inds:
        counters["probe:roundtrip_unsliced_checked"] += 1
    return bad


# ---------------------------------------------------------------------------
# the machine


class OpSkip(Exception):
    pass


def _apply(ctg, op, trees, net, clk, pools, counters, log):
    """Apply one op. Returns (kind, info) where kind in ok|skip|crash|observer-bad."""
    name = op["op"]
    t = op["t"] % len(trees)
    tree = trees[t]
    inplace = op.get("inplace", True)
    res = None

    def place(new):
        # non-inplace result: becomes a new live tree (or replaces the oldest other one)
        if new is tree:
            return
        if len(trees) < 3:
            trees.append(new)
        else:
            trees[(t + 1) % 3] = new

    if name == "subtree_reconfigure":
        res = tree.subtree_reconfigure(
            subtree_size=op["subtree_size"], subtree_search=op["subtree_search"], weight_what=op["weight_what"],
            weight_pwr=op["weight_pwr"], select=op["select"], maxiter=op["maxiter"], seed=op["seed"],
            minimize=op["minimize"], inplace=inplace)
        place(res)
    elif name == "subtree_reconfigure_forest":
        res = _with_pool(op.get("pool"), clk, pools, counters, lambda pool: tree.subtree_reconfigure_forest(
            num_trees=op["num_trees"], num_restarts=op["num_restarts"], restart_fraction=op["restart_fraction"],
            subtree_maxiter=op["subtree_maxiter"], subtree_size=op["subtree_size"], parallel=pool,
            minimize=op["minimize"], seed=op["seed"], inplace=inplace))
        place(res)
    elif name == "simulated_anneal":
        res = tree.simulated_anneal(
            tfinal=op["tfinal"], tstart=op["tstart"], tsteps=op["tsteps"], numiter=op["numiter"],
            minimize=op["minimize"], target_size=op["target_size"], slice_mode=op["slice_mode"], seed=op["seed"],
            inplace=inplace)
        place(res)
    elif name == "parallel_temper":
        res = _with_pool(op.get("pool"), clk, pools, counters, lambda pool: tree.parallel_temper(
            tsteps=op["tsteps"], num_trees=op["num_trees"], numiter=op["numiter"], minimize=op["minimize"],
            target_size=op["target_size"], slice_mode=op["slice_mode"], parallel_slice_mode=op["parallel_slice_mode"],
            max_time=op["max_time"], seed=op["seed"], parallel=pool, inplace=inplace))
        place(res)
    elif name == "remove_ind":
        cands = [ix for ix in sorted(net.size_dict) if ix not in tree.sliced_inds]
        if op.get("again") and tree.sliced_inds:
            # ask for an index that is already sliced / projected: documented ValueError
            cands = list(tree.sliced_inds)
        if not cands:
            raise OpSkip
        ix = cands[op["k"] % len(cands)]
        project = op.get("project")
        if project is not None:
            project = project % net.size_dict[ix]
        res = tree.remove_ind(ix, project=project, inplace=inplace)
        place(res)
        log.add("removed", ix, project)
    elif name == "restore_ind":
        cands = list(tree.sliced_inds)
        if not cands:
            raise OpSkip
        ix = cands[op["k"] % len(cands)]
        res = tree.restore_ind(ix, inplace=inplace)
        place(res)
    elif name == "unslice_rand":
        if not tree.sliced_inds:
            raise OpSkip
        res = tree.unslice_rand(seed=op["seed"], inplace=inplace)
        place(res)
    elif name == "unslice_all":
        res = tree.unslice_all(inplace=inplace)
        place(res)
    elif name == "slice":
        res = tree.slice(
            target_size=op["target_size"], target_overhead=op["target_overhead"], target_slices=op["target_slices"],
            temperature=op["temperature"], minimize=op["minimize"], allow_outer=op["allow_outer"],
            max_repeats=op["max_repeats"], reslice=op["reslice"], seed=op["seed"], inplace=inplace)
        place(res)
    elif name == "slice_and_reconfigure":
        res = tree.slice_and_reconfigure(
            target_size=op["target_size"], step_size=op["step_size"], minimize=op["minimize"],
            allow_outer=op["allow_outer"], max_repeats=op["max_repeats"], reslice=op["reslice"],
            reconf_opts=dict(op["reconf"]), inplace=inplace)
        place(res)
    elif name == "slice_and_reconfigure_forest":
        res = _with_pool(op.get("pool"), clk, pools, counters, lambda pool: tree.slice_and_reconfigure_forest(
            target_size=op["target_size"], step_size=op["step_size"], num_trees=op["num_trees"],
            max_repeats=op["max_repeats"], parallel=pool, reconf_opts=dict(op["reconf"]), inplace=inplace))
        place(res)
    elif name == "sort_contraction_indices":
        tree.sort_contraction_indices(priority=op["priority"], make_output_contig=op["make_output_contig"],
                                      make_contracted_contig=op["make_contracted_contig"], reset=op["reset"])
    elif name == "reset_contraction_indices":
        tree.reset_contraction_indices()
    elif name == "copy":
        place(tree.copy())
    # ---- observers (they fill caches on the subject) -------------------------
    elif name == "contract":
        if tree.multiplicity > 4096:
            raise OpSkip
        kind, detail = _contract_and_compare(tree, net, op["copts"])
        if kind is not None:
            return "observer-bad", f"{kind}: {detail}"
    elif name == "get_contractor":
        c = _copts(op["copts"])
        tree.get_contractor(order=c["order"], prefer_einsum=c["prefer_einsum"], strip_exponent=c["strip_exponent"],
                            implementation=c["implementation"])
    elif name == "contract_stats":
        log.add("stats", tree.contract_stats(force=op["force"]))
    elif name == "totals":
        log.add("totals", tree.total_flops(), tree.total_write(), tree.max_size(), tree.peak_size(), tree.combo_cost())
    elif name == "get_path":
        o = _order_fn(op["order"])
        log.add("path", tree.get_ssa_path(order=o) if op["ssa"] else tree.get_path(order=o))
    elif name == "print_contractions":
        with contextlib.redirect_stdout(io.StringIO()):
            tree.print_contractions(sort=op["sort"])
    elif name == "has_preprocessing":
        log.add("prep", tree.has_preprocessing())
    elif name == "contract_slice":
        i = op["k"] % tree.nslices
        c = _copts(op["copts"])
        x = tree.contract_slice(net.arrays, i, **c)
        log.add("slice-shape", list(np.shape(x)))
    elif name == "gen_output_chunks":
        if tree.multiplicity > 4096:
            raise OpSkip
        c = _copts(op["copts"])
        n = 0
        for _ in tree.gen_output_chunks(net.arrays, **c):
            n += 1
        log.add("chunks", n)
    elif name == "touch_recipes":
        for p in tree.children:
            tree.get_inds(p)
            if tree.get_can_dot(p):
                tree.get_tensordot_axes(p)
                tree.get_tensordot_perm(p)
            else:
                tree.get_einsum_eq(p)
    else:
        raise ValueError(name)
    return "ok", None


CONTRACT_OBSERVERS = {"contract", "get_contractor", "contract_slice", "gen_output_chunks", "touch_recipes", "print_contractions"}
QUERY_OBSERVERS = {"contract_stats", "totals", "get_path", "has_preprocessing"}


OP_CPU_LIMIT = 10.0  # seconds of CPU time for ONE operation on a <= 12 tensor network (they take milliseconds)


class _OpDidNotReturn(BaseException):
    """BaseException so that no `except Exception` inside the library swallows it."""


def _on_vtalrm(signum, frame):
    raise _OpDidNotReturn()


def run_case(prop, case):
    import signal
    import threading as _threading

    import cotengra as ctg
    from sim import seams as _seams

    _seams.hermetic_reset()

    log = EventLog()
    counters = {}

    class C(dict):
        def __missing__(self, k):
            return 0

    counters = C()
    faults = C()
    states = set()
    violations = []
    net = Net(case["net"])
    clk = simclock.VirtualClock()
    tick = case.get("tick", 0.0)
    if tick:
        def on_read(c, tick=tick):
            c.now += tick
            c.run_due()
        clk.on_read = on_read
    pools = []
    crng = random.Random(case.get("check_opts_seed", 0))
    log.add("case", case["seed"], case["net"]["inputs"], case["net"]["output"], case["net"]["size_dict"])
    mutated = False
    warm = False
    if case.get("profile"):
        counters["profile:" + case["profile"]] += 1
    with simclock.activate(clk):
        prng.reseed_globals(prng.H(case["seed"], "init"))
        try:
            tree0 = _build_initial(ctg, net, case["init"])
        except Exception as e:
            # initial tree could not be built: nothing to check (counted)
            counters["init_failed:" + type(e).__name__] += 1
            return {"violations": [], "digest": log.digest(), "counters": dict(counters), "faults": {},
                    "states": [], "sim_seconds": 0.0, "nontrivial": False, "sample": None}
        trees = [tree0]
        log.add("init", _tree_summary(tree0))

        def check_all(step, opname):
            for ti, tr in enumerate(trees):
                if prop == "C02":
                    copts_list = [dict(order=None, prefer_einsum=False, implementation=None, strip_exponent=False),
                                  _gen_copts(crng)]
                    for oracle, detail in oracle_c02(tr, net, copts_list, counters):
                        violations.append({"oracle": oracle, "detail": f"after step {step} ({opname}), tree {ti}: {detail}",
                                           "sig": {"last_op": opname, "step": step}})
                else:
                    for oracle, detail, extra in oracle_c04(ctg, tr, counters):
                        sig = {"last_op": opname, "step": step}
                        sig.update(extra)
                        violations.append({"oracle": oracle, "detail": f"after step {step} ({opname}), tree {ti}: {detail}",
                                           "sig": sig})

        check_all(-1, "init")
        for step, op in enumerate(case["ops"]):
            if violations:
                break
            name = op["op"]
            prng.reseed_globals(prng.H(case["seed"], "op", step))
            t = op["t"] % len(trees)
            target = trees[t]
            if name in MUTATORS and prop == "C04":
                if target._track_flops or target._track_size or target._track_write:
                    counters["probe:tracked_before_mutation"] += 1
            if name in MUTATORS and name not in ("copy",) and any(
                    ("tensordot_axes" in i or "einsum_eq" in i) for i in target.info.values()):
                counters["probe:mutation_with_warm_cache"] += 1
                warm = True
            use_timer = _threading.current_thread() is _threading.main_thread()
            try:
                if use_timer:
                    signal.signal(signal.SIGVTALRM, _on_vtalrm)
                    signal.setitimer(signal.ITIMER_VIRTUAL, OP_CPU_LIMIT)
                try:
                    kind, info = _apply(ctg, op, trees, net, clk, pools, counters, log)
                finally:
                    if use_timer:
                        signal.setitimer(signal.ITIMER_VIRTUAL, 0)
            except _OpDidNotReturn:
                # CPU-time watchdog (process CPU, so machine load does not matter): the operation is still running
                # after OP_CPU_LIMIT seconds on a tiny network; there is no value / no figures to compare at all
                counters["probe:operation_did_not_return"] += 1
                violations.append({"oracle": "operation-did-not-return",
                                   "detail": f"step {step} {name} still running after {OP_CPU_LIMIT:g} s of CPU time "
                                             f"(history so far: {[o['op'] for o in case['ops'][:step + 1]]})",
                                   "sig": {"last_op": name}})
                break
            except OpSkip:
                counters["skip:" + name] += 1
                log.add("skip", step, name)
                continue
            except Exception as e:
                ename = type(e).__name__
                if name in CONTRACT_OBSERVERS and prop == "C02":
                    violations.append({"oracle": "contract-raised",
                                       "detail": f"step {step} observer {name} raised {ename}: {e}",
                                       "sig": {"last_op": name, "step": step}})
                    break
                if name in QUERY_OBSERVERS and prop == "C04":
                    violations.append({"oracle": "query-raised",
                                       "detail": f"step {step} query {name} raised {ename}: {e}",
                                       "sig": {"last_op": name, "step": step}})
                    break
                counters[f"op-crash:{name}:{ename}"] += 1
                log.add("crash", step, name, ename)
                # A transformation that refuses its arguments (the quantifier says "with arbitrary parameters") is part
                # of the history: the tree stays live and must still compute the original value afterwards.
                counters["probe:tree_kept_after_refused_op"] += 1
                for tr in trees:
                    log.add("tree", step, _tree_summary(tr))
                check_all(step, name + "!raised")
                continue
            counters["op:" + name] += 1
            if name in MUTATORS:
                mutated = True
            if kind == "observer-bad":
                if prop == "C02":
                    violations.append({"oracle": "wrong-value", "detail": f"step {step} contract on the live tree: {info}",
                                       "sig": {"last_op": name, "step": step}})
                    break
            if name == "contract" and warm and mutated:
                counters["probe:contract_after_mutation_with_warm_cache"] += 1
            for tr in trees:
                log.add("tree", step, _tree_summary(tr))
                if mutated:
                    states.add(_state_key(tr, name))
            check_all(step, name)
    for p in pools:
        for k, v in p.stats.items():
            if k in ("out_of_order", "cancelled", "submitted", "completed"):
                counters["pool:" + k] += v
        counters["pool:mode:" + p.mode] += 1
    if clk.now > 0 and case.get("tick"):
        faults["clock:tick_per_read"] += 1
    for op in case["ops"]:
        pl = op.get("pool")
        if pl and pl.get("slow"):
            faults["pool:slow_worker"] += 1
    if any(p.stats["out_of_order"] for p in pools):
        faults["pool:completion_reordered"] += 1
    log.add("violations", [(v["oracle"], v["detail"]) for v in violations])
    # make the signature carry the op-kind sequence (used after minimisation)
    for v in violations:
        v["sig"]["ops"] = [o["op"] for o in case["ops"][: v["sig"].get("step", -1) + 1]]
        v["sig"].pop("step", None)
    sample = {"net": case["net"]["inputs"], "output": case["net"]["output"], "sizes": case["net"]["size_dict"],
              "init": case["init"]["kind"], "ops": [o["op"] for o in case["ops"]],
              "interesting": len(case["ops"]) >= 6 and bool(pools)}
    return {"violations": violations, "digest": log.digest(), "counters": dict(counters), "faults": dict(faults),
            "states": list(states), "sim_seconds": clk.now, "nontrivial": mutated, "sample": sample}


# ---------------------------------------------------------------------------
# minimisation


DEFAULTS = {
    "subtree_reconfigure": dict(select="max", subtree_search="bfs", weight_what="flops", weight_pwr=2, minimize=None, inplace=True),
    "simulated_anneal": dict(minimize=None, target_size=None, slice_mode="basic", tstart=2.0, tfinal=0.05, inplace=True),
    "remove_ind": dict(project=None, inplace=True),
    "restore_ind": dict(inplace=True),
    "slice": dict(allow_outer=True, reslice=False, minimize=None, temperature=0.01, inplace=True),
    "contract": dict(copts=dict(order=None, prefer_einsum=False, implementation=None, strip_exponent=False)),
    "sort_contraction_indices": dict(priority="flops", make_output_contig=True, make_contracted_contig=True, reset=True),
    "subtree_reconfigure_forest": dict(pool=None, minimize=None, inplace=True),
    "parallel_temper": dict(pool=None, minimize=None, target_size=None, max_time=None, inplace=True),
    "slice_and_reconfigure": dict(minimize=None, reslice=False, allow_outer=True, inplace=True),
    "slice_and_reconfigure_forest": dict(pool=None, inplace=True),
}


def minimise(prop, case, v):
    cls = violation_class(v)
    budget = [250 if v["oracle"] != "operation-did-not-return" else 40]  # every confirming run of a hang costs OP_CPU_LIMIT

    def fails_case(c):
        if budget[0] <= 0:
            return False
        budget[0] -= 1
        try:
            r = run_case(prop, c)
        except Exception:
            return False
        return any(violation_class(x) == cls for x in r["violations"])

    def with_ops(ops):
        c = dict(case)
        c["ops"] = ops
        return c

    ops = list(case["ops"])
    if not fails_case(with_ops(ops)):
        return case, v
    if fails_case(with_ops([])):
        ops = []
    else:
        ops = ddmin(ops, lambda o: fails_case(with_ops(o)), max_tests=150)
    # simplify arguments towards defaults
    for i in range(len(ops)):
        d = DEFAULTS.get(ops[i]["op"], {})
        for k, dv in d.items():
            if k in ops[i] and ops[i][k] != dv:
                trial = [dict(o) for o in ops]
                trial[i][k] = dv
                if fails_case(with_ops(trial)):
                    ops = trial
        for k in ("maxiter", "tsteps", "numiter", "num_trees", "num_restarts", "subtree_maxiter", "max_repeats"):
            while k in ops[i] and ops[i][k] > 1 and budget[0] > 0:
                trial = [dict(o) for o in ops]
                trial[i][k] = ops[i][k] - 1
                if fails_case(with_ops(trial)):
                    ops = trial
                else:
                    break
        if ops[i].get("t", 0) != 0:
            trial = [dict(o) for o in ops]
            trial[i]["t"] = 0
            if fails_case(with_ops(trial)):
                ops = trial
    small = with_ops(ops)
    if small.get("tick"):
        c2 = dict(small)
        c2["tick"] = 0.0
        if fails_case(c2):
            small = c2
    budget[0] = 5
    r = run_case(prop, small)
    vs = [x for x in r["violations"] if violation_class(x) == cls]
    return small, (vs[0] if vs else v)
